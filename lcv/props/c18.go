package props

import (
	"fmt"
	"go/constant"
	"go/token"
	"go/types"
	"sort"
	"strings"

	"golang.org/x/tools/go/ssa"

	"lcv/core"
	"lcv/eng"
)

const (
	cpPkg   = core.RootMod + "/commentparser"
	langPkg = core.RootMod + "/commentparser/language"
)

func init() {
	register(&Check{
		ID:      "C18",
		Modules: []string{""},
		Explanation: "Table/exhaustiveness rules on commentparser/language (relations read by constant propagation over the table functions, not executed) and path/typestate rules on the lexer: (R18.1) every comment style that has a delimiter row is returned by commentStyle for some language, and every language style has some delimiter; " +
			"(R18.2) for all 47 languages a multi-line start delimiter exists iff an end delimiter exists; (R18.3) singleLineComment and multiLineComment consult the same fallback languages; (R18.4) consumption typestate on lex: no rune is consumed right after a delimiter was consumed without being examined; " +
			"(R18.5) every cycle of lex and match passes a consuming call; (R18.6) the ChunkIterator goroutine closes its channel on all paths and is the only sender; (R18.7) raw (backquote) strings have no escape character; (R18.8) the text that is lexed is the input itself plus at most a terminating newline (so line numbers are those of the file); (R18.9) the contents of a string literal are recorded as a comment only behind a successful match of a triple quote; (R18.11) after an escape character is consumed the next rune is consumed before any delimiter match; (R18.10) every rune consumed in the loop that collects a doc string is added to its text. " +
			"Necessary conditions of agreeing with a reference lexer; agreement on all strings and the chunk grouping arithmetic are not decided. Boolean flags that record how a loop was left are followed path-sensitively. R18.4 failed on the pinned tree at four (read, origin) pairs (D8a, D8b), repaired since.",
		Run: runC18,
	})
}

func runC18(c *Ctx) {
	p := c.Prog("")
	if p == nil {
		return
	}
	lp := p.Pkg(langPkg)
	if !c.R.Anchor(lp != nil, langPkg) {
		return
	}
	// the four table functions, read by conditional constant propagation (engine E7b): the receiver is bound to
	// each declared Language constant in turn
	tfn := map[string]*ssa.Function{}
	for _, n := range []string{"SingleLineCommentStart", "MultilineCommentStart", "MultilineCommentEnd"} {
		f := p.Func(langPkg, "(Language)."+n)
		if !c.R.Anchor(f != nil && len(f.Params) == 1, "language.(Language)."+n) {
			return
		}
		tfn[n] = f
	}
	// the style indirection (Language -> comment style -> delimiters) is optional: a table that gives every language its
	// delimiters directly has no styles, and the style rules have nothing to say about it
	hasStyles := false
	if f := p.Func(langPkg, "(Language).commentStyle"); f != nil && len(f.Params) == 1 && f.Signature.Results().Len() == 1 {
		if _, isNamed := f.Signature.Results().At(0).Type().(*types.Named); isNamed {
			tfn["commentStyle"] = f
			hasStyles = true
		}
	}
	langT, _ := tfn["SingleLineCommentStart"].Params[0].Type().(*types.Named)
	if !c.R.Anchor(langT != nil, "language.Language") {
		return
	}
	langs := eng.ConstsOfType(lp, langT.Obj().Name())
	c.R.Count("R18:languages", len(langs))
	c.R.RequireMin("R18.1", "language constants", len(langs), 20)
	ce := eng.NewConstEvaluator()
	evalStr := func(n string, l *types.Const) (string, bool) {
		res, err := ce.Eval(tfn[n], []constant.Value{l.Val()})
		if err != nil || len(res) != 1 {
			msg := "unexpected result shape"
			if err != nil {
				msg = err.Error()
			}
			c.R.Undecided("R18.1", "language table "+n, langPkg, "cannot read the table for "+l.Name()+": "+msg)
			return "", false
		}
		if res[0].Kind() == constant.String {
			return constant.StringVal(res[0]), true
		}
		return res[0].ExactString(), true
	}
	// R18.18 the apostrophe is a string delimiter only where the language has single-quoted strings. In the Lisp family it
	// is the quote operator, in the Verilog family it stands inside sized numbers (8'hFF): there QuoteCharacter must not
	// report it as a quote - one apostrophe in ordinary code hides every comment up to the next one. (The list is a fact
	// about the languages, kept here; HTML and Markdown are exempted from string lexing as a whole, R18.12.)
	if qc := p.Func(langPkg, "(Language).QuoteCharacter"); qc != nil && len(qc.Params) == 2 {
		notAQuote := map[string]bool{"Lisp": true, "Clojure": true, "Verilog": true, "SystemVerilog": true}
		nQ, bad, und := 0, "", ""
		for _, l := range langs {
			if !notAQuote[l.Name()] {
				continue
			}
			res, err := ce.Eval(qc, []constant.Value{l.Val(), constant.MakeInt64('\'')})
			if err != nil || len(res) < 1 {
				und = l.Name()
				continue
			}
			nQ++
			if res[0].Kind() == constant.Bool && constant.BoolVal(res[0]) {
				bad += l.Name() + " "
			}
		}
		if und != "" {
			c.R.Info("R18.18", "QuoteCharacter: the apostrophe in "+und, p.Pos(qc.Pos()), "not decided: the function could not be evaluated for this language")
		} else {
			c.R.Check(bad == "", "R18.18", "QuoteCharacter: the apostrophe is not a quote in the Lisp and Verilog families", p.Pos(qc.Pos()), fmt.Sprintf("%d languages evaluated", nQ),
				"QuoteCharacter reports the apostrophe as a string delimiter for "+strings.TrimSpace(bad)+": there it is the quote operator / part of a sized number, so ordinary code (\"8'hFF\", \"'foo\") opens a string that swallows the comments behind it")
		}
	}
	// R18.21 block comments nest where the language says so: NestedComments answers yes for Swift, Kotlin, Dart and Haskell (a
	// fact about the languages, kept here like the one of R18.18) - where it says no, an inner comment ends the outer one at the
	// first end delimiter and the rest is lexed as code
	if nc := p.Func(langPkg, "(Language).NestedComments"); nc != nil && len(nc.Params) == 1 {
		nest := map[string]bool{"Swift": true, "Kotlin": true, "Dart": true, "Haskell": true}
		nN, bad, und := 0, "", ""
		for _, l := range langs {
			if !nest[l.Name()] {
				continue
			}
			res, err := ce.Eval(nc, []constant.Value{l.Val()})
			if err != nil || len(res) != 1 || res[0].Kind() != constant.Bool {
				und = l.Name()
				continue
			}
			nN++
			if !constant.BoolVal(res[0]) {
				bad += l.Name() + " "
			}
		}
		if und != "" {
			c.R.Info("R18.21", "NestedComments for "+und, p.Pos(nc.Pos()), "not decided: the function could not be evaluated for this language")
		} else {
			c.R.Check(bad == "", "R18.21", "NestedComments: block comments nest in Swift, Kotlin, Dart and Haskell", p.Pos(nc.Pos()), fmt.Sprintf("%d languages evaluated", nN),
				"NestedComments says that block comments do not nest in "+strings.TrimSpace(bad)+": a block comment inside a block comment ends the outer one early, and what is left of it is lexed as code")
		}
	}
	// R18.22 the delimiters are those of the language. Facts about well-known languages, kept here like those of R18.18: the
	// line-comment and block-comment delimiters of the C, shell, SQL/Haskell and markup families. A language that is not in
	// the list is not decided; a delimiter that differs from the language's own (a block comment in a language that has
	// none, say) makes ordinary code open a comment that swallows what follows.
	{
		cfam := [3]string{"//", "/*", "*/"}
		hash := [3]string{"#", "", ""}
		facts := map[string][3]string{
			"C": cfam, "CSharp": cfam, "Dart": cfam, "Go": cfam, "Java": cfam, "JavaScript": cfam, "Kotlin": cfam, "ObjectiveC": cfam, "Swift": cfam, "TypeScript": cfam,
			"Shell": hash, "Python": hash, "R": hash, "Yaml": hash, "NinjaBuild": hash, "Elixir": hash,
			"Ruby": {"#", "=begin", "=end"}, "Haskell": {"--", "{-", "-}"}, "HTML": {"", "<!--", "-->"}, "Matlab": {"%", "%{", "%}"},
			"Fortran": {"!", "", ""}, "AppleScript": {"--", "(*", "*)"},
		}
		nL, bad, und := 0, "", ""
		for _, l := range langs {
			f, ok := facts[l.Name()]
			if !ok {
				continue
			}
			var got [3]string
			okAll := true
			for i, n := range []string{"SingleLineCommentStart", "MultilineCommentStart", "MultilineCommentEnd"} {
				res, err := ce.Eval(tfn[n], []constant.Value{l.Val()})
				if err != nil || len(res) != 1 || res[0].Kind() != constant.String {
					okAll = false
					break
				}
				got[i] = constant.StringVal(res[0])
			}
			if !okAll {
				und = l.Name()
				continue
			}
			nL++
			if got != f && bad == "" {
				bad = fmt.Sprintf("%s: line comment %q, block comment %q ... %q (the language has %q, %q ... %q)", l.Name(), got[0], got[1], got[2], f[0], f[1], f[2])
			}
		}
		if und != "" {
			c.R.Info("R18.22", "comment delimiters of "+und, langPkg, "not decided: the table functions could not be evaluated for this language")
		} else if nL > 0 {
			c.R.Check(bad == "", "R18.22", "the comment delimiters of well-known languages are those of the language", langPkg, fmt.Sprintf("%d languages evaluated", nL),
				"the table gives "+bad+": text that is code in that language is lexed as a comment (or a comment as code)")
		}
	}
	// R18.23 delimiters are matched exactly: the lexer (package commentparser) never folds case. "=END" does not close a Ruby
	// block comment and "@rem" handling, if wanted, belongs in the table of one language, not in the matcher of all of them.
	{
		bad := ""
		nF := 0
		for _, fn := range pkgFuncs(p, cpPkg) {
			nF++
			for _, call := range core.CallsIn(fn) {
				switch n := core.StaticCalleeName(call.Common()); n {
				case "unicode.ToLower", "unicode.ToUpper", "unicode.ToTitle", "unicode.SimpleFold", "strings.EqualFold", "strings.ToLower", "strings.ToUpper", "bytes.EqualFold", "bytes.ToLower", "bytes.ToUpper":
					if bad == "" {
						bad = core.ShortFn(fn) + " calls " + n + " at " + p.Pos(call.Pos())
					}
				}
			}
		}
		c.R.Check(bad == "", "R18.23", "the lexer compares runes exactly (no case folding)", cpPkg, fmt.Sprintf("%d functions of the lexer package: no call of a case-folding function", nF),
			bad+": a delimiter is recognised in another spelling than the language's - text that is code (\"x =BEGIN_MARK\") opens a comment, or a comment is closed early (\"=End\")")
	}
	// R18.25 a piece of the input is cut out with an upper bound only where that bound was tested: a slice expression s[a:b] of a
	// string with a computed b stands behind a test of b (or of the amount added to a) against a length. A look-ahead of the
	// length of a delimiter panics when the delimiter's first byte stands within the last few bytes of the text.
	// R18.26 the lexer advances by the width the decoder reported: utf8.RuneLen is not applied to a rune that came out of a
	// decoder - for an invalid byte the decoder returns (RuneError, 1) and RuneLen(RuneError) is 3, so two more bytes are
	// skipped unseen (a newline, a closing quote, the end of a comment).
	{
		bad25, bad26 := "", ""
		n25 := 0
		for _, fn := range pkgFuncs(p, cpPkg) {
			for _, b := range fn.Blocks {
				for _, in := range b.Instrs {
					switch x := in.(type) {
					case *ssa.Slice:
						if !isString(x.X.Type()) || x.High == nil {
							continue
						}
						if _, isK := x.High.(*ssa.Const); isK {
							continue
						}
						hi := core.Unspill(x.High)
						if cl, isCall := hi.(*ssa.Call); isCall {
							if bi, isB := cl.Call.Value.(*ssa.Builtin); isB && bi.Name() == "len" {
								continue
							}
						}
						n25++
						guarded := false
						for _, f := range core.FactsAt(b) {
							cmp, ok := f.AsCmp()
							if !ok {
								continue
							}
							for _, o := range []ssa.Value{core.Unspill(cmp.X), core.Unspill(cmp.Y)} {
								if o == hi {
									guarded = true
								}
							}
						}
						// a bound that is itself a position the lexer reached (a field load, a phi of offsets) was in range when it
						// was reached
						switch hi.(type) {
						case *ssa.UnOp, *ssa.Phi, *ssa.Parameter, *ssa.Extract:
							guarded = true
						}
						if !guarded && bad25 == "" {
							bad25 = core.ShortFn(fn) + " at " + p.Pos(x.Pos())
						}
					case *ssa.Call:
						if core.StaticCalleeName(x.Common()) != "unicode/utf8.RuneLen" {
							continue
						}
						arg := core.Unspill(x.Call.Args[0])
						if ex, isEx := arg.(*ssa.Extract); isEx {
							if cl, isCall := ex.Tuple.(*ssa.Call); isCall {
								n := core.StaticCalleeName(cl.Common())
								if strings.HasPrefix(n, "unicode/utf8.DecodeRune") || (cl.Call.StaticCallee() != nil && core.FuncPkgPath(cl.Call.StaticCallee()) == cpPkg) {
									if bad26 == "" {
										bad26 = core.ShortFn(fn) + " at " + p.Pos(x.Pos())
									}
								}
							}
						}
						if _, isPrm := arg.(*ssa.Parameter); isPrm && bad26 == "" {
							// a rune handed in by the lexer loop was decoded there
							bad26 = core.ShortFn(fn) + " at " + p.Pos(x.Pos())
						}
					}
				}
			}
		}
		c.R.Check(bad25 == "", "R18.25", "a piece of the input is cut out only up to a tested bound", cpPkg, fmt.Sprintf("%d slices of a string with a computed upper bound", n25),
			"a string is sliced up to a computed bound without a test of that bound ("+bad25+"): at the end of the text the bound lies behind the last byte and Parse panics")
		c.R.Check(bad26 == "", "R18.26", "the lexer does not take the width of a decoded rune from utf8.RuneLen", cpPkg, "no call of utf8.RuneLen on a rune that came out of a decoder",
			"utf8.RuneLen is applied to a decoded rune ("+bad26+"): an invalid byte decodes to (RuneError, width 1) but RuneLen(RuneError) is 3 - the lexer skips two bytes it never looked at, which can be a line break, a closing quote or the end of a comment")
	}
	// R18.27 the text of a single-line comment ends where the line ends: in a file with CR LF line endings the carriage return in
	// front of the line feed is part of the terminator. Where a comment is recorded behind a successful singleLineComment(), the
	// text that is recorded is the result of strings.TrimSuffix / TrimRight with "\r" (D55).
	{
		isSL := func(b *ssa.BasicBlock) bool {
			for _, f := range core.FactsAt(b) {
				if cl, ok := f.Cond.(*ssa.Call); ok && f.Truth {
					if g := cl.Call.StaticCallee(); g != nil && strings.HasSuffix(g.Name(), "singleLineComment") {
						return true
					}
				}
			}
			return false
		}
		trimmed := func(v ssa.Value) bool {
			cl, ok := core.Unspill(v).(*ssa.Call)
			if !ok {
				return false
			}
			n := core.StaticCalleeName(cl.Common())
			if n != "strings.TrimSuffix" && n != "strings.TrimRight" {
				return false
			}
			sv, isS := core.ConstString(cl.Call.Args[1])
			return isS && strings.Contains(sv, "\r")
		}
		nS, bad := 0, ""
		for _, fn := range pkgFuncs(p, cpPkg) {
			for _, lit := range structLits([]*ssa.Function{fn}, "commentparser.Comment") {
				if !isSL(lit.alloc.Block()) {
					continue
				}
				if tv, ok := lit.fields["Text"]; ok {
					nS++
					if !trimmed(tv) && bad == "" {
						bad = p.Pos(lit.alloc.Pos())
					}
				}
			}
			for _, call := range core.CallsIn(fn) {
				g := call.Common().StaticCallee()
				if g == nil || core.FuncPkgPath(g) != cpPkg || !isSL(call.Block()) || len(structLits([]*ssa.Function{g}, "commentparser.Comment")) == 0 {
					continue
				}
				for _, a := range call.Common().Args {
					if isString(a.Type()) {
						nS++
						if !trimmed(a) && bad == "" {
							bad = p.Pos(call.Pos())
						}
					}
				}
			}
		}
		if nS == 0 {
			c.R.Info("R18.27", "single-line comments: trailing carriage return", cpPkg, "not decided: no place found where a comment is recorded behind singleLineComment()")
		} else {
			c.R.Check(bad == "", "R18.27", "the text of a single-line comment is recorded without a trailing carriage return", cpPkg, fmt.Sprintf("%d places where a single-line comment is recorded", nS),
				"the single-line comment recorded at "+bad+" keeps the carriage return of a CR LF line ending in its text (\"// abc\\r\\n\" gives \" abc\\r\")")
		}
	}
	// R18.24 the end of the input is known from the offset, not from the decoded rune: utf8.RuneError is what the decoder returns
	// for the end of the input AND for every invalid byte AND for a literal U+FFFD - a function of the lexer that compares a
	// decoded rune with it also looks at the width (the second result), or lexing stops at the first such byte and the comments
	// behind it are lost.
	{
		bad := ""
		nD := 0
		for _, fn := range pkgFuncs(p, cpPkg) {
			for _, b := range fn.Blocks {
				for _, in := range b.Instrs {
					bo, ok := in.(*ssa.BinOp)
					if !ok || (bo.Op != token.EQL && bo.Op != token.NEQ) {
						continue
					}
					var other ssa.Value
					if k, isK := core.ConstInt(bo.Y); isK && k == 0xFFFD {
						other = bo.X
					} else if k, isK := core.ConstInt(bo.X); isK && k == 0xFFFD {
						other = bo.Y
					}
					if other == nil {
						continue
					}
					nD++
					// the width of the same decode is used somewhere
					widthUsed := false
					if ex, isEx := core.Unspill(other).(*ssa.Extract); isEx {
						for _, r := range *ex.Tuple.Referrers() {
							if e2, ok := r.(*ssa.Extract); ok && e2.Index == 1 && e2.Referrers() != nil {
								for _, u := range *e2.Referrers() {
									if _, isDbg := u.(*ssa.DebugRef); !isDbg {
										widthUsed = true
									}
								}
							}
						}
					}
					if !widthUsed && bad == "" {
						bad = core.ShortFn(fn) + " at " + p.Pos(bo.Pos())
					}
				}
			}
		}
		c.R.Check(bad == "", "R18.24", "a decoded rune is compared with utf8.RuneError only together with its width", cpPkg, fmt.Sprintf("%d comparisons with utf8.RuneError", nD),
			"a rune is compared with utf8.RuneError without its width ("+bad+"): an invalid byte or a U+FFFD character in code or in a string is taken for the end of the input, and every comment behind it is lost")
	}
	defStyle := ""
	image := map[string][]string{}
	styleOf := map[string]string{}
	if hasStyles {
		styleT, _ := tfn["commentStyle"].Signature.Results().At(0).Type().(*types.Named)
		styles := eng.ConstsOfType(lp, styleT.Obj().Name())
		c.R.Count("R18:styles", len(styles))
		c.R.RequireMin("R18.1", "style constants", len(styles), 5)
		styleName := map[string]string{}
		for _, s := range styles {
			styleName[s.Val().ExactString()] = s.Name()
		}
		defStyle = styleName["0"]
		// R18.1 reachability of styles
		for _, l := range langs {
			v, ok := evalStr("commentStyle", l)
			if !ok {
				return
			}
			s := styleName[v]
			styleOf[l.Name()] = s
			image[s] = append(image[s], l.Name())
		}
		// styles that have a delimiter row: the delimiter functions are read once more with commentStyle's result fixed
		// to each style in turn (for every language, because a row can depend on the language too); a style for which some
		// delimiter comes back non-empty has a row, however the rows are stored (switch, array, map)
		usedInTables := map[string]bool{}
		for _, st := range styles {
			ce2 := eng.NewConstEvaluator()
			ce2.Override[tfn["commentStyle"]] = []constant.Value{st.Val()}
			for _, n := range []string{"SingleLineCommentStart", "MultilineCommentStart", "MultilineCommentEnd"} {
				for _, l := range langs {
					res, err := ce2.Eval(tfn[n], []constant.Value{l.Val()})
					if err != nil || len(res) != 1 || res[0].Kind() != constant.String {
						msg := "unexpected result shape"
						if err != nil {
							msg = err.Error()
						}
						c.R.Undecided("R18.1", "language table "+n, langPkg, "cannot read the table for style "+st.Name()+": "+msg)
						return
					}
					if constant.StringVal(res[0]) != "" {
						usedInTables[st.Name()] = true
					}
				}
			}
		}
		var names []string
		for k := range usedInTables {
			names = append(names, k)
		}
		sort.Strings(names)
		c.R.RequireMin("R18.1", "styles distinguished by the delimiter functions", len(names), 4)
		for _, s := range names {
			if s == defStyle {
				continue
			}
			if len(image[s]) > 0 {
				c.R.OK("R18.1", "style "+s+" is returned by commentStyle", langPkg, fmt.Sprintf("for %d language(s): %s", len(image[s]), strings.Join(image[s], ",")))
			} else {
				c.R.Fail("R18.1", "style "+s+" is never returned by commentStyle", langPkg, "the style has delimiter rows but no language maps to it: comments of the language it was written for are never found")
			}
		}
	} else {
		c.R.OK("R18.1", "every language has its delimiters directly (no comment-style indirection)", langPkg, "nothing between a language and its delimiter row that could be unreachable")
	}
	sl, ms, me := map[string]string{}, map[string]string{}, map[string]string{}
	for _, l := range langs {
		var ok1, ok2, ok3 bool
		sl[l.Name()], ok1 = evalStr("SingleLineCommentStart", l)
		ms[l.Name()], ok2 = evalStr("MultilineCommentStart", l)
		me[l.Name()], ok3 = evalStr("MultilineCommentEnd", l)
		if !ok1 || !ok2 || !ok3 {
			return
		}
	}
	if !hasStyles {
		// without styles, two languages have "the same comment style" when their three delimiters agree
		for _, l := range langs {
			k := sl[l.Name()] + " | " + ms[l.Name()] + " | " + me[l.Name()]
			styleOf[l.Name()] = k
			image[k] = append(image[k], l.Name())
		}
		defStyle = " |  | "
	}
	var imgStyles []string
	for s := range image {
		imgStyles = append(imgStyles, s)
	}
	sort.Strings(imgStyles)
	for _, s := range imgStyles {
		if s == defStyle {
			continue
		}
		any := false
		for _, l := range image[s] {
			if sl[l] != "" || ms[l] != "" {
				any = true
			}
		}
		if !any {
			c.R.Fail("R18.1", "style "+s+" has no delimiter row", langPkg, "languages "+strings.Join(image[s], ",")+" map to a style for which no comment delimiter is defined")
		}
	}
	// languages with unknown style: recorded (Unknown itself is expected)
	var noStyle []string
	for _, l := range image[defStyle] {
		if l != "Unknown" {
			noStyle = append(noStyle, l)
		}
	}
	if len(noStyle) > 0 {
		c.R.Info("R18.1", "languages without a comment style", langPkg, strings.Join(noStyle, ","))
	}

	// R18.15 every language that a file name can be classified as has comment delimiters: the constants that
	// ClassifyLanguage returns (directly, or as the values of the extension table it looks the extension up in) are not
	// left with the empty style - a file of such a language would be parsed into no comments at all, which is worse than
	// an unknown extension (whose whole content is looked at)
	if cl := p.Func(langPkg, "ClassifyLanguage"); cl != nil && len(cl.Blocks) > 0 {
		returned := map[string]bool{}
		addConst := func(cst *ssa.Const) {
			if cst == nil || cst.Value == nil || !types.Identical(cst.Type(), langT) {
				return
			}
			for _, l := range langs {
				if l.Val().ExactString() == cst.Value.ExactString() {
					returned[l.Name()] = true
				}
			}
		}
		// the values a function of the package can return: constants, phis of them, the results of helpers of the package
		// (followed), values of a package-level table
		var retVals []ssa.Value
		seenFn := map[*ssa.Function]bool{}
		seenV := map[ssa.Value]bool{}
		var collectFn func(f *ssa.Function, d int)
		var collectV func(v ssa.Value, d int)
		collectV = func(v ssa.Value, d int) {
			if v == nil || seenV[v] || d > 6 {
				return
			}
			seenV[v] = true
			switch y := v.(type) {
			case *ssa.Phi:
				for _, e := range y.Edges {
					collectV(e, d+1)
				}
			case *ssa.Call:
				if g := y.Call.StaticCallee(); g != nil && core.FuncPkgPath(g) == langPkg && len(g.Blocks) > 0 {
					collectFn(g, d+1)
					return
				}
				retVals = append(retVals, v)
			default:
				retVals = append(retVals, v)
			}
		}
		collectFn = func(f *ssa.Function, d int) {
			if seenFn[f] || d > 6 {
				return
			}
			seenFn[f] = true
			for _, b := range f.Blocks {
				if ret, ok := b.Instrs[len(b.Instrs)-1].(*ssa.Return); ok && len(ret.Results) >= 1 {
					collectV(ret.Results[0], d)
				}
			}
		}
		collectFn(cl, 0)
		for _, rv := range retVals {
			switch x := rv.(type) {
			case *ssa.Const:
				addConst(x)
			default:
				// a value looked up in a package-level table: all values of the table
				var lk *ssa.Lookup
				if ex, isEx := x.(*ssa.Extract); isEx {
					lk, _ = ex.Tuple.(*ssa.Lookup)
				} else {
					lk, _ = x.(*ssa.Lookup)
				}
				if lk != nil {
					if ld, isLd := lk.X.(*ssa.UnOp); isLd {
						if g, isG := ld.X.(*ssa.Global); isG {
							if sp := p.SSAPkgs[langPkg]; sp != nil && sp.Func("init") != nil {
								for _, ib := range sp.Func("init").Blocks {
									for _, in := range ib.Instrs {
										if st, isSt := in.(*ssa.Store); isSt && st.Addr == ssa.Value(g) {
											if mm, isMM := st.Val.(*ssa.MakeMap); isMM {
												for _, r := range *mm.Referrers() {
													if mu, isMU := r.(*ssa.MapUpdate); isMU {
														cst, _ := mu.Value.(*ssa.Const)
														addConst(cst)
													}
												}
											}
										}
									}
								}
							}
						}
					}
				}
			}
		}
		var bare []string
		for l := range returned {
			if l != "Unknown" && sl[l] == "" && ms[l] == "" {
				bare = append(bare, l)
			}
		}
		sort.Strings(bare)
		c.R.Check(len(bare) == 0 && len(returned) >= 10, "R18.15", "every language ClassifyLanguage can return has comment delimiters", p.Pos(cl.Pos()),
			fmt.Sprintf("%d languages returned, each with a single-line or multi-line start delimiter", len(returned)),
			"ClassifyLanguage can return "+strings.Join(bare, ", ")+", for which no comment delimiter is defined: Parse finds no comment in such a file and the tool classifies nothing for it")
	}

	// R18.2 pairing for every language
	bad := 0
	for _, l := range langs {
		if (ms[l.Name()] == "") != (me[l.Name()] == "") {
			bad++
			c.R.Fail("R18.2", "language "+l.Name()+": multi-line start and end delimiters are not paired", langPkg, fmt.Sprintf("style %s: start %q, end %q", styleOf[l.Name()], ms[l.Name()], me[l.Name()]))
		}
	}
	if bad == 0 {
		c.R.OK("R18.2", "multi-line start delimiter exists iff end delimiter exists, for every language", langPkg, fmt.Sprintf("%d languages x 2 table functions evaluated by constant propagation", len(langs)))
	}

	// R18.3 fallback agreement
	cp := p.Pkg(cpPkg)
	if !c.R.Anchor(cp != nil, cpPkg) {
		return
	}
	fb := map[string]map[string]bool{}
	langName := map[int64]string{}
	for _, l := range langs {
		if v, ok := constant.Int64Val(l.Val()); ok {
			langName[v] = l.Name()
		}
	}
	// The two sides are told apart by the delimiter function that is asked (SingleLine.../Multiline... of the language
	// package), wherever in the comment parser the question is put: in the helpers singleLineComment and multiLineComment
	// or, if one of them was folded into the lexer, in the lexer itself.
	fb["singleLineComment"], fb["multiLineComment"] = map[string]bool{}, map[string]bool{}
	for _, fn := range pkgFuncs(p, cpPkg) {
		// which language constant is the current language known to equal at block b?
		langAt := func(b *ssa.BasicBlock) (string, bool) {
			for _, f := range core.FactsAt(b) {
				if cmp, ok := f.AsCmp(); ok && cmp.Op == token.EQL && strings.HasSuffix(core.AP(cmp.X), ".lang") {
					if k, ok := core.ConstInt(cmp.Y); ok {
						return langName[k], true
					}
				}
			}
			return "", false
		}
		for _, call := range core.CallsIn(fn) {
			cal := call.Common().StaticCallee()
			if cal == nil || core.FuncPkgPath(cal) != langPkg || len(call.Common().Args) == 0 || cal.Signature.Recv() == nil {
				continue
			}
			fnName := ""
			switch {
			case strings.HasPrefix(cal.Name(), "SingleLine"):
				fnName = "singleLineComment"
			case strings.HasPrefix(cal.Name(), "Multiline") || strings.HasPrefix(cal.Name(), "MultiLine"):
				fnName = "multiLineComment"
			default:
				continue
			}
			recv := call.Common().Args[0]
			var srcs []struct {
				v ssa.Value
				b *ssa.BasicBlock
			}
			if phi, ok := recv.(*ssa.Phi); ok {
				for k, e := range phi.Edges {
					srcs = append(srcs, struct {
						v ssa.Value
						b *ssa.BasicBlock
					}{e, phi.Block().Preds[k]})
				}
			} else {
				srcs = append(srcs, struct {
					v ssa.Value
					b *ssa.BasicBlock
				}{recv, call.Block()})
			}
			for _, sr := range srcs {
				k, ok := core.ConstInt(sr.v)
				if !ok {
					continue // the current language itself
				}
				if cur, ok := langAt(sr.b); ok {
					fb[fnName][cur+"->"+langName[k]] = true
				} else {
					fb[fnName]["?->"+langName[k]] = true
				}
			}
		}
	}
	a, b := keysOf(fb["singleLineComment"]), keysOf(fb["multiLineComment"])
	c.R.Check(strings.Join(a, ",") == strings.Join(b, ",") && len(a) > 0, "R18.3", "singleLineComment and multiLineComment use the same fallback languages", cpPkg,
		"both consult "+strings.Join(a, ", "), fmt.Sprintf("single-line fallbacks %v, multi-line fallbacks %v", a, b))

	// R18.4 lexer typestate
	lex := p.Func(cpPkg, "(*input).lex")
	match := p.Func(cpPkg, "(*input).match")
	if !c.R.Anchor(lex != nil, "commentparser.(*input).lex") || !c.R.Anchor(match != nil, "commentparser.(*input).match") {
		return
	}
	cfg := eng.LexConfig{Peek: p.Func(cpPkg, "(*input).peekRune"), Read: p.Func(cpPkg, "(*input).readRune"), Unread: p.Func(cpPkg, "(*input).unreadRune"), EOF: p.Func(cpPkg, "(*input).eof"),
		MatchLike: []*ssa.Function{match}}
	// the two helpers that wrap match for the delimiters of the language; one that was folded into the lexer is not there
	for _, n := range []string{"(*input).singleLineComment", "(*input).multiLineComment"} {
		if f := p.Func(cpPkg, n); f != nil {
			cfg.MatchLike = append(cfg.MatchLike, f)
		}
	}
	for _, f := range append([]*ssa.Function{cfg.Peek, cfg.Read, cfg.Unread, cfg.EOF}, cfg.MatchLike...) {
		if !c.R.Anchor(f != nil, "commentparser lexer primitive") {
			return
		}
	}
	lr := eng.AnalyzeLexer(lex, cfg)
	c.R.Count("R18.4:blocks of lex", lr.Blocks)
	c.R.Count("R18.4:readRune calls", lr.Reads)
	c.R.Count("R18.4:match-like calls", lr.MatchCalls)
	c.R.RequireMin("R18.4", "readRune calls in lex", lr.Reads, 2)
	c.R.RequireMin("R18.4", "match-like calls in lex", lr.MatchCalls, 2)
	for _, f := range lr.Findings {
		c.R.Fail("R18.4", f.Key, p.Pos(f.Pos), f.Detail)
	}
	c.R.OK("R18.4", "lex: every other readRune is preceded by a peek, a failed match or a pending unread on all paths", p.Pos(lex.Pos()), fmt.Sprintf("%d readRune sites, %d match-like sites; %d (read, origin) pairs reachable in state Boundary", lr.Reads, lr.MatchCalls, len(lr.Findings)))

	// R18.5 progress
	lexFns := []*ssa.Function{lex, match}
	for _, f := range pkgFuncs(p, cpPkg) {
		if f != lex && f != match && f.Signature.Recv() != nil && lex.Signature.Recv() != nil && f.Signature.Recv().Type().String() == lex.Signature.Recv().Type().String() {
			uses := false
			for _, call := range core.CallsIn(f) {
				if cal := call.Common().StaticCallee(); cal != nil && (cal == cfg.Read || cal == match) {
					uses = true
				}
			}
			if uses && f != cfg.Read && f != cfg.Peek && f != cfg.Unread {
				lexFns = append(lexFns, f)
			}
		}
	}
	for _, fn := range lexFns {
		bad := eng.NonProgressCycles(fn, cfg)
		if len(bad) == 0 {
			c.R.OK("R18.5", fn.Name()+": every loop iteration consumes input or exits", p.Pos(fn.Pos()), "no cycle avoids readRune and the success edge of a match-like call")
		}
		for _, h := range bad {
			c.R.Fail("R18.5", fmt.Sprintf("%s: a loop can iterate without consuming input", fn.Name()), p.Pos(h.Instrs[0].Pos()), "a cycle through this loop header passes neither readRune nor a successful match: the lexer can hang")
		}
	}

	// R18.5 (second half): every cycle of a consuming loop tests for the end of the input
	for _, fn := range lexFns {
		bad := eng.CyclesWithoutEOFTest(fn, cfg)
		if len(bad) == 0 {
			c.R.OK("R18.5", fn.Name()+": every cycle of a consuming loop tests for end of input", p.Pos(fn.Pos()), "each cycle passes a branch on eof()/peekRune's ok that leaves the loop")
		}
		for _, h := range bad {
			c.R.Fail("R18.5", "a loop of the lexer consumes input but has a cycle that never tests for end of input", p.Pos(h.Instrs[0].Pos()), "at end of input readRune does not advance any more: an unterminated comment or string makes Parse loop forever")
		}
	}

	// R18.13 comments that nest, nest to any depth: in the loop that reads a multi-line comment of a language with nested
	// comments, an integer counts the open comments - every nested start delimiter adds one, an end delimiter takes one off
	// while the count is positive, and the comment ends only on an end delimiter at count zero.
	checkNestingCounter(c, p, lexFns, match)
	checkNewlineEndsString(c, p, lexFns)
	// R18.19 lines are counted at line feeds: in the primitive that consumes a rune, the line number is advanced under a test
	// of the rune against '\n' and nothing else (a carriage return counted as well counts every CR LF line end twice)
	if rd := cfg.Read; rd != nil {
		nL, bad := 0, ""
		cd := core.NewPostDom(rd).TransitiveControlDeps()
		for _, b := range rd.Blocks {
			for _, in := range b.Instrs {
				st, ok := in.(*ssa.Store)
				if !ok {
					continue
				}
				fa, ok := st.Addr.(*ssa.FieldAddr)
				if !ok || !strings.EqualFold(core.FieldName(fa), "line") {
					continue
				}
				if bo, isBo := st.Val.(*ssa.BinOp); !isBo || bo.Op != token.ADD {
					continue
				}
				nL++
				for d := range cd[b] {
					ifi, isIf := d.Instrs[len(d.Instrs)-1].(*ssa.If)
					if !isIf {
						continue
					}
					okC := false
					if bo, isBo := ifi.Cond.(*ssa.BinOp); isBo && (bo.Op == token.EQL || bo.Op == token.NEQ) {
						if k, isK := core.ConstInt(bo.Y); isK && k == '\n' {
							okC = true
						}
					}
					if !okC {
						bad = p.Pos(ifi.Cond.Pos())
					}
				}
			}
		}
		c.R.Check(bad == "", "R18.19", rd.Name()+": the line number advances at a line feed and nowhere else", p.Pos(rd.Pos()), fmt.Sprintf("%d increments of the line number, each under `r == '\\n'` only", nL),
			"the line number is also advanced under another test (at "+bad+"): lines are counted where there is no line feed (a carriage return, say), so the start and end lines of the comments are not the lines of the file")
		c.R.RequireMin("R18.19", "increments of the line number in the read primitive", nL, 1)
	}

	// R18.14 what Parse returns belongs to the caller: the call writes no package-level state and the list it returns (and
	// the comments in it) is allocated by this call - not taken from a pool that a later call fills again
	if parse := p.Func(cpPkg, "Parse"); c.R.Anchor(parse != nil, "commentparser.Parse") {
		e := runEffects(c, p, "R18.14", effectRoot{fn: parse, name: "Parse", params: provParams(parse, eng.Input, 0)}, []string{core.RootMod}, false)
		ret := e.Run(parse, provParams(parse, eng.Input, 0))
		fresh := len(ret) == 1 && ret[0]&^eng.Fresh == 0
		c.R.Check(fresh, "R18.14", "Parse: the comments returned are allocated by the call", p.Pos(parse.Pos()), "result provenance Fresh",
			"the list returned can be (or alias) memory that outlives the call (a pooled lexer state, a package-level variable): the next Parse overwrites the comments an earlier caller still holds")
	}

	// R18.8 the text that is lexed is the input itself
	checkParseInput(c, p)

	// R18.12 languages without string literals: the lexer does not look for strings in files whose quotes are plain text
	// (HTML). Whatever makes it skip the string syntax for one language must hold for every language with the same
	// comment style (Markdown shares HTML's style and is prose too): otherwise an apostrophe hides every comment behind it.
	{
		qc := p.Func(langPkg, "(Language).QuoteCharacter")
		exempt := map[string]bool{}
		nSites := 0
		for _, fn := range lexFns {
			for _, call := range core.CallsIn(fn) {
				if qc == nil || call.Common().StaticCallee() != qc {
					continue
				}
				nSites++
				for _, f := range core.FactsAtInstr(call.(ssa.Instruction)) {
					cmp, ok := f.AsCmp()
					if !ok || cmp.Op != token.NEQ {
						continue
					}
					for _, pair := range [][2]ssa.Value{{cmp.X, cmp.Y}, {cmp.Y, cmp.X}} {
						cst, isC := pair[1].(*ssa.Const)
						if !isC || cst.Value == nil || !types.Identical(cst.Type(), langT) {
							continue
						}
						for _, l := range langs {
							if l.Val().ExactString() == cst.Value.ExactString() {
								exempt[l.Name()] = true
							}
						}
					}
				}
			}
		}
		if c.R.Anchor(nSites > 0, "lex: call of Language.QuoteCharacter") {
			var missing []string
			for e := range exempt {
				for _, l := range langs {
					if styleOf[l.Name()] == styleOf[e] && styleOf[e] != defStyle && !exempt[l.Name()] {
						missing = append(missing, l.Name()+" (style "+styleOf[e]+", like "+e+")")
					}
				}
			}
			sort.Strings(missing)
			var ex []string
			for e := range exempt {
				ex = append(ex, e)
			}
			sort.Strings(ex)
			c.R.Check(len(missing) == 0, "R18.12", "lex: the languages whose quotes are plain text are all the languages of their comment style", p.Pos(lex.Pos()),
				"string syntax is skipped for "+strings.Join(ex, ", ")+"; no other language shares their comment style",
				"string syntax is skipped for "+strings.Join(ex, ", ")+" but not for "+strings.Join(missing, ", ")+": in such a file an apostrophe or quotation mark opens a \"string\" that hides the comments behind it")
		}
		// ... and the markup languages have no string literals at all (a fact about HTML and Markdown, kept here): each of them
		// is exempted by the lexer, or QuoteCharacter answers no for every quote character the lexer asks about
		if qc != nil && len(qc.Params) == 2 && nSites > 0 {
			bad := ""
			nM := 0
			for _, l := range langs {
				if l.Name() != "HTML" && l.Name() != "Markdown" {
					continue
				}
				nM++
				if exempt[l.Name()] {
					continue
				}
				for _, q := range []rune{'"', '\'', '`'} {
					res, err := ce.Eval(qc, []constant.Value{l.Val(), constant.MakeInt64(int64(q))})
					if err != nil || len(res) < 1 || res[0].Kind() != constant.Bool {
						bad += l.Name() + " (" + string(q) + ": not evaluated) "
						continue
					}
					if constant.BoolVal(res[0]) {
						bad += l.Name() + " (" + string(q) + ") "
					}
				}
			}
			if nM > 0 {
				c.R.Check(bad == "", "R18.12", "lex: no quote character opens a string in HTML and Markdown", p.Pos(lex.Pos()), "exempted by the lexer, or QuoteCharacter is false for \" ' and `",
					"a quote character still opens a string literal in "+strings.TrimSpace(bad)+": prose with an unbalanced quotation mark hides the <!-- --> comments behind it")
			}
		}
	}

	// R18.9 string contents become a comment only for Python triple-quoted strings
	checkDocStringFlag(c, p, lexFns, cfg)

	// R18.6 channel discipline in ChunkIterator
	checkChunkIterator(c, p)

	// R18.7 raw strings have no escapes
	if qc := p.Func(langPkg, "(Language).QuoteCharacter"); c.R.Anchor(qc != nil, "language.(Language).QuoteCharacter") {
		n := 0
		okAll := true
		for _, b := range qc.Blocks {
			for _, in := range b.Instrs {
				ret, ok := in.(*ssa.Return)
				if !ok || len(ret.Results) != 2 {
					continue
				}
				back := false
				for _, f := range core.FactsAt(b) {
					if cmp, ok := f.AsCmp(); ok && cmp.Op == token.EQL {
						if k, ok := core.ConstInt(cmp.Y); ok && k == '`' {
							back = true
						}
					}
				}
				if !back {
					continue
				}
				n++
				if cst, ok := ret.Results[1].(*ssa.Const); !ok || cst.Value == nil || cst.Value.String() != "false" {
					okAll = false
				}
			}
		}
		c.R.Check(okAll && n > 0, "R18.7", "QuoteCharacter: a backquote (raw) string never has an escape character", p.Pos(qc.Pos()),
			fmt.Sprintf("%d return(s) under quote == '`' have constant escape=false", n), "the escape flag for backquote strings is not the constant false: a backslash before the closing backquote keeps the raw string open and its contents are mis-lexed")
	}
}

func keysOf(m map[string]bool) []string {
	var out []string
	for k := range m {
		out = append(out, k)
	}
	sort.Strings(out)
	return out
}

func checkChunkIterator(c *Ctx, p *core.Prog) {
	fn := p.Func(cpPkg, "(Comments).ChunkIterator")
	if !c.R.Anchor(fn != nil, "commentparser.(Comments).ChunkIterator") {
		return
	}
	var mk *ssa.MakeChan
	for _, b := range fn.Blocks {
		for _, in := range b.Instrs {
			if m, ok := in.(*ssa.MakeChan); ok {
				mk = m
			}
		}
	}
	if mk == nil {
		c.R.Fail("R18.6", "ChunkIterator: channel", p.Pos(fn.Pos()), "no channel is created")
		return
	}
	var gofn *ssa.Function
	for _, b := range fn.Blocks {
		for _, in := range b.Instrs {
			if g, ok := in.(*ssa.Go); ok {
				gofn = eng.ResolveCallee(g.Call.Value)
			}
		}
	}
	if gofn == nil {
		c.R.Fail("R18.6", "ChunkIterator: producer goroutine", p.Pos(fn.Pos()), "no goroutine is started")
		return
	}
	// close(ch) deferred in the entry block, or before every return
	closed := false
	for _, in := range gofn.Blocks[0].Instrs {
		if d, ok := in.(*ssa.Defer); ok {
			if b, ok := d.Call.Value.(*ssa.Builtin); ok && b.Name() == "close" {
				closed = true
			}
		}
	}
	if !closed {
		closed = true
		for _, b := range gofn.Blocks {
			if _, ok := b.Instrs[len(b.Instrs)-1].(*ssa.Return); ok {
				has := false
				for _, in := range b.Instrs {
					if call, ok := in.(*ssa.Call); ok {
						if bi, ok := call.Call.Value.(*ssa.Builtin); ok && bi.Name() == "close" {
							has = true
						}
					}
				}
				if !has {
					closed = false
				}
			}
		}
	}
	c.R.Check(closed, "R18.6", "ChunkIterator: the producer closes the channel on every path", p.Pos(gofn.Pos()), "close(ch) is deferred at the start of the goroutine (or precedes every return)", "a path through the producer goroutine returns without closing the channel: a consumer ranging over it blocks forever")
	// sends only in the goroutine
	sends := 0
	outside := 0
	// the producer is a function literal of ChunkIterator or a function of its own that `go` starts
	scope := core.WithAnon(fn)
	inProducer := map[*ssa.Function]bool{gofn: true}
	if gofn.Parent() == nil {
		for _, f := range core.WithAnon(gofn) {
			inProducer[f] = true
			scope = append(scope, f)
		}
	}
	for _, f := range scope {
		for _, b := range f.Blocks {
			for _, in := range b.Instrs {
				if _, ok := in.(*ssa.Send); ok {
					sends++
					if !inProducer[f] {
						outside++
					}
				}
			}
		}
	}
	c.R.Check(sends > 0 && outside == 0, "R18.6", "ChunkIterator: chunks are sent only by the producer goroutine", p.Pos(fn.Pos()), fmt.Sprintf("%d send site(s), all in the goroutine", sends), "a send happens outside the producer goroutine or there is no send")
	// R18.16 how the comments are grouped depends on where they stand, not on what they say: no branch of the producer
	// tests a comment's text (a comment that is skipped for being blank is not delivered, and the run around it is cut)
	nIf, bad := 0, ""
	var producer []*ssa.Function
	seenP := map[*ssa.Function]bool{}
	for _, f0 := range core.WithAnon(fn) {
		for _, f := range pkgClosure(f0, cpPkg) {
			for _, f2 := range core.WithAnon(f) {
				if !seenP[f2] {
					seenP[f2] = true
					producer = append(producer, f2)
				}
			}
		}
	}
	for _, f := range producer {
		var dep func(v ssa.Value, seen map[ssa.Value]bool) bool
		dep = func(v ssa.Value, seen map[ssa.Value]bool) bool {
			if v == nil || seen[v] {
				return false
			}
			seen[v] = true
			switch x := v.(type) {
			case *ssa.FieldAddr:
				if core.FieldName(x) == "Text" {
					return true
				}
			case *ssa.Field:
				if st, ok := x.X.Type().Underlying().(*types.Struct); ok && st.Field(x.Field).Name() == "Text" {
					return true
				}
			}
			in, ok := v.(ssa.Instruction)
			if !ok {
				return false
			}
			for _, op := range in.Operands(nil) {
				if *op != nil && dep(*op, seen) {
					return true
				}
			}
			return false
		}
		for _, b := range f.Blocks {
			if ifi, ok := b.Instrs[len(b.Instrs)-1].(*ssa.If); ok {
				nIf++
				if dep(ifi.Cond, map[ssa.Value]bool{}) {
					bad = p.Pos(ifi.Cond.Pos())
				}
			}
		}
	}
	c.R.Check(bad == "", "R18.16", "ChunkIterator: no branch depends on the text of a comment", p.Pos(fn.Pos()), fmt.Sprintf("%d branches, all on positions and lengths", nIf),
		"a branch of the producer tests the text of a comment (at "+bad+"): comments are delivered or grouped differently depending on what they say - every comment has to be delivered, in maximal runs of adjacent lines")
	c.R.RequireMin("R18.16", "branches in ChunkIterator", nIf, 1)
	// R18.20 a run grows comment by comment: the comment that the next one is compared with is the one that was appended
	// last. In the loop that appends c[index] to the chunk, the loop-carried comment variable takes that same element on the
	// way round. (If it keeps the first comment of the chunk, a run is cut after two lines.)
	nA, okPrev := 0, true
	for _, f := range core.WithAnon(fn) {
		for _, call := range core.CallsIn(f) {
			cv, ok := call.(*ssa.Call)
			if !ok {
				continue
			}
			bi, ok := cv.Call.Value.(*ssa.Builtin)
			if !ok || bi.Name() != "append" || len(cv.Call.Args) != 2 {
				continue
			}
			el := singleVarargElem(cv.Call.Args[1])
			if el == nil || !strings.Contains(core.TypeName(el.Type()), "Comment") {
				continue
			}
			// innermost loop header around the append
			var h *ssa.BasicBlock
			for d := cv.Block(); d != nil && h == nil; d = d.Idom() {
				for _, pr := range d.Preds {
					if d.Dominates(pr) && reaches(cv.Block(), d) {
						h = d
					}
				}
			}
			if h == nil {
				continue
			}
			nA++
			found := false
			for _, in := range h.Instrs {
				phi, isPhi := in.(*ssa.Phi)
				if !isPhi || !types.Identical(phi.Type(), el.Type()) {
					continue
				}
				for k, e := range phi.Edges {
					if h.Dominates(h.Preds[k]) && core.AP(e) == core.AP(el) && core.AP(e) != "" {
						found = true
					}
				}
			}
			if !found {
				okPrev = false
			}
		}
	}
	if nA > 0 {
		c.R.Check(okPrev, "R18.20", "ChunkIterator: the comment a run is continued from is the one appended last", p.Pos(fn.Pos()), "the loop-carried comment becomes the appended element on the way round",
			"in the loop that appends comments to a chunk no loop-carried comment takes the appended element: every comment is compared with the same earlier one (the first of its chunk), so a run of three or more lines is cut into pieces")
	}
}

// checkParseInput: R18.8.
func checkParseInput(c *Ctx, p *core.Prog) {
	parse := p.Func(cpPkg, "Parse")
	if !c.R.Anchor(parse != nil, "commentparser.Parse") {
		return
	}
	contents := parse.Params[0]
	var isInput func(v ssa.Value, depth int) bool
	isInput = func(v ssa.Value, depth int) bool {
		if depth > 4 {
			return false
		}
		switch x := v.(type) {
		case *ssa.Convert:
			return x.X == ssa.Value(contents)
		case *ssa.Phi:
			for _, e := range x.Edges {
				if !isInput(e, depth+1) {
					return false
				}
			}
			return true
		case *ssa.BinOp:
			if x.Op == token.ADD {
				if s, ok := core.ConstString(x.Y); ok && s == "\n" {
					return isInput(x.X, depth+1)
				}
			}
		}
		return false
	}
	n := 0
	for _, lit := range structLits([]*ssa.Function{parse}, "commentparser.input") {
		for name, v := range lit.fields {
			if !isString(v.Type()) {
				continue
			}
			n++
			c.R.Check(isInput(v, 0), "R18.8", "Parse lexes the input itself (plus at most a terminating newline)", p.Pos(lit.alloc.Pos()),
				"field "+name+" = string(contents) [+ \"\\n\"]", "the text handed to the lexer is derived from the input by "+eng.Describe(v)+": characters are removed or changed before lexing, so line numbers and comment boundaries are those of a different text")
		}
	}
	if n == 0 {
		// the lexer state type may have been renamed: look for any struct literal in Parse with a string field
		for _, b := range parse.Blocks {
			for _, in := range b.Instrs {
				if st, ok := in.(*ssa.Store); ok && isString(st.Val.Type()) {
					if _, isFA := st.Addr.(*ssa.FieldAddr); isFA {
						n++
						c.R.Check(isInput(st.Val, 0), "R18.8", "Parse lexes the input itself (plus at most a terminating newline)", p.Pos(st.Pos()), "string(contents) [+ newline]", "the text handed to the lexer is derived from the input by "+eng.Describe(st.Val))
					}
				}
			}
		}
	}
	c.R.RequireMin("R18.8", "text handed to the lexer", n, 1)
}

// checkDocStringFlag: R18.9. A Comment whose text comes from the buffer that collects *string* contents is
// recorded only under a boolean flag; that flag may become true only behind a successful match of a
// three-character (triple quote) delimiter.
func checkDocStringFlag(c *Ctx, p *core.Prog, fns []*ssa.Function, cfg eng.LexConfig) {
	n := 0
	for _, f := range fns {
		for _, lit := range structLits([]*ssa.Function{f}, "commentparser.Comment") {
			// which boolean phi guards this literal?
			var flag *ssa.Phi
			for _, fct := range core.FactsAtInstr(lit.alloc) {
				if ph, ok := fct.Cond.(*ssa.Phi); ok && fct.Truth && isBool(ph.Type()) {
					flag = ph
				}
			}
			if flag == nil {
				continue // comments proper are recorded unconditionally after their delimiters matched
			}
			n++
			ok, why := true, "the flag is raised only behind a successful match of a triple quote"
			for w := range boolWeb(flag) {
				ph := w.(*ssa.Phi)
				for k, e := range ph.Edges {
					if _, isPhi := e.(*ssa.Phi); isPhi {
						continue
					}
					if cst, isC := e.(*ssa.Const); isC && cst.Value != nil && cst.Value.String() == "false" {
						continue
					}
					pb := ph.Block().Preds[k]
					behind := false
					for _, fct := range core.FactsAt(pb) {
						call, isCall := fct.Cond.(*ssa.Call)
						if !isCall || !fct.Truth || call.Call.StaticCallee() == nil || len(call.Call.Args) < 2 {
							continue
						}
						if call.Call.StaticCallee() != cfg.MatchLike[0] {
							continue
						}
						if s, isS := core.ConstString(call.Call.Args[1]); isS && len(s) == 3 && s[0] == s[1] && s[1] == s[2] {
							behind = true
						}
					}
					if !behind {
						ok, why = false, "the flag that turns string contents into a comment can become true on a path that did not match a triple quote ("+eng.Describe(e)+"): the contents of an ordinary string literal are reported as a comment"
					}
				}
			}
			c.R.Check(ok, "R18.9", "lex: string contents are recorded as a comment only for triple-quoted (doc)strings", p.Pos(lit.alloc.Pos()), why, why)
		}
	}
	c.R.Count("R18.9:flag-guarded comment literals", n)

	// R18.11: the rune after an escape character is part of the string whatever it is: once the escape has been consumed,
	// the next rune is consumed too before any delimiter is looked for (no match call can see an escaped quote).
	for _, f := range fns {
		for _, rc := range core.CallsIn(f) {
			if rc.Common().StaticCallee() != cfg.Read {
				continue
			}
			esc := false
			for _, fct := range core.FactsAtInstr(rc) {
				if cmp, ok := fct.AsCmp(); ok && cmp.Op == token.EQL {
					if k, isK := core.ConstInt(cmp.Y); isK && k == '\\' {
						esc = true
					}
				}
			}
			if !esc {
				continue
			}
			// forward search from the escape read to the next consuming or matching primitive
			type pos struct {
				b *ssa.BasicBlock
				i int
			}
			start := -1
			for i, in := range rc.Block().Instrs {
				if in == ssa.Instruction(rc.(ssa.Instruction)) {
					start = i + 1
				}
			}
			seen := map[*ssa.BasicBlock]bool{}
			work := []pos{{rc.Block(), start}}
			bad := ""
			for len(work) > 0 && bad == "" {
				w := work[len(work)-1]
				work = work[:len(work)-1]
				stop := false
				for _, in := range w.b.Instrs[w.i:] {
					call, ok := in.(ssa.CallInstruction)
					if !ok {
						continue
					}
					cal := call.Common().StaticCallee()
					switch {
					case cal == nil:
					case cal == cfg.Read || cal == cfg.Unread:
						stop = true
					case fnIn(cfg.MatchLike, cal):
						bad = p.Pos(call.Pos())
						stop = true
					}
					if stop {
						break
					}
				}
				if stop {
					continue
				}
				for _, sc := range w.b.Succs {
					if !seen[sc] {
						seen[sc] = true
						work = append(work, pos{sc, 0})
					}
				}
			}
			c.R.Check(bad == "", "R18.11", "lex: after an escape character the next rune is consumed before a delimiter is looked for", p.Pos(rc.Pos()), "every path from the escape read reaches a read before any match",
				"a path from the read of the escape character reaches a delimiter match (at "+bad+") before the escaped rune was consumed: an escaped quote closes the string, so comment markers inside the literal are reported and real comments behind it are swallowed")
		}
	}

	// R18.10: the text of a doc string is what stands between the quotes: in the loop that collects it, every rune that
	// is consumed is also written to the collecting buffer (no rune - e.g. the backslash of an escape - is eaten).
	for _, f := range fns {
		for _, call := range core.CallsIn(f) {
			if core.StaticCalleeName(call.Common()) != "(*bytes.Buffer).WriteRune" {
				continue
			}
			// a write under a boolean flag (the doc-string flag)
			flagged := false
			for _, fct := range core.FactsAtInstr(call) {
				if ph, ok := fct.Cond.(*ssa.Phi); ok && fct.Truth && isBool(ph.Type()) {
					flagged = true
				}
			}
			if !flagged {
				continue
			}
			buf := call.Common().Args[0]
			// the innermost loop that contains the write
			var h *ssa.BasicBlock
			for d := call.Block(); d != nil && h == nil; d = d.Idom() {
				for _, pr := range d.Preds {
					if d.Dominates(pr) && reaches(call.Block(), d) {
						h = d
					}
				}
			}
			if h == nil {
				continue
			}
			nReads, eaten := 0, ""
			for _, rc := range core.CallsIn(f) {
				if rc.Common().StaticCallee() != cfg.Read || !h.Dominates(rc.Block()) || !reaches(rc.Block(), h) {
					continue
				}
				nReads++
				v := rc.Value()
				written := false
				if v != nil {
					for _, r := range *v.Referrers() {
						if wc, ok := r.(*ssa.Call); ok && core.StaticCalleeName(&wc.Call) == "(*bytes.Buffer).WriteRune" && wc.Call.Args[0] == buf {
							written = true
						}
					}
				}
				if !written {
					eaten = p.Pos(rc.Pos())
				}
			}
			if nReads == 0 {
				continue
			}
			c.R.Check(eaten == "", "R18.10", "lex: every rune consumed while a doc string is collected is added to its text", p.Pos(call.Pos()), fmt.Sprintf("%d reads in the collecting loop, each written to the buffer", nReads),
				"a rune is consumed in the collecting loop without being written to the doc string's text (at "+eaten+"): the reported text is not the text between the quotes (backslashes are lost)")
		}
	}
}

func fnIn(l []*ssa.Function, f *ssa.Function) bool {
	for _, x := range l {
		if x == f {
			return true
		}
	}
	return false
}

// checkNestingCounter: R18.13.
func checkNestingCounter(c *Ctx, p *core.Prog, lexFns []*ssa.Function, match *ssa.Function) {
	nLoops := 0
	for _, fn := range lexFns {
		for _, call := range core.CallsIn(fn) {
			nc, ok := call.(*ssa.Call)
			if !ok || nc.Call.StaticCallee() == nil || nc.Call.StaticCallee().Name() != "NestedComments" {
				continue
			}
			// the innermost loop around the test
			var h *ssa.BasicBlock
			for d := nc.Block(); d != nil && h == nil; d = d.Idom() {
				for _, pr := range d.Preds {
					if d.Dominates(pr) && reaches(nc.Block(), d) {
						h = d
					}
				}
			}
			if h == nil {
				continue
			}
			nLoops++
			loopSet := naturalLoop(h)
			inLoop := func(b *ssa.BasicBlock) bool { return loopSet[b] }
			holds := func(b *ssa.BasicBlock, to *ssa.BasicBlock, v ssa.Value, truth bool) bool {
				fs := append([]core.Fact{}, core.FactsAt(b)...)
				if ifi, ok := b.Instrs[len(b.Instrs)-1].(*ssa.If); ok && to != nil && len(b.Succs) == 2 && b.Succs[0] != b.Succs[1] {
					cond, tr := ifi.Cond, b.Succs[0] == to
					for {
						if u, ok := cond.(*ssa.UnOp); ok && u.Op == token.NOT {
							cond, tr = u.X, !tr
							continue
						}
						break
					}
					fs = append(fs, core.Fact{Cond: cond, Truth: tr, If: ifi})
				}
				for _, f := range fs {
					if f.Cond == v && f.Truth == truth {
						return true
					}
				}
				return false
			}
			var mStart, mEnd []*ssa.Call
			for _, b := range fn.Blocks {
				if !inLoop(b) {
					continue
				}
				for _, in := range b.Instrs {
					mc, ok := in.(*ssa.Call)
					if !ok || mc.Call.StaticCallee() != match {
						continue
					}
					if holds(b, nil, nc, true) {
						mStart = append(mStart, mc)
					} else {
						mEnd = append(mEnd, mc)
					}
				}
			}
			if len(mStart) == 0 || len(mEnd) == 0 {
				c.R.Undecided("R18.13", fn.Name()+": nested comment loop", p.Pos(nc.Pos()), "cannot tell the match of the nested start delimiter from the match of the end delimiter")
				continue
			}
			anyTrue := func(b, to *ssa.BasicBlock, ms []*ssa.Call) bool {
				for _, m := range ms {
					if holds(b, to, m, true) {
						return true
					}
				}
				return false
			}
			// a counter: an integer phi of the loop head that starts at 0
			okCounter, why := false, "no integer of the loop counts the open comments"
			for _, in := range h.Instrs {
				n, ok := in.(*ssa.Phi)
				if !ok {
					break
				}
				if bt, isB := n.Type().Underlying().(*types.Basic); !isB || bt.Info()&types.IsInteger == 0 {
					continue
				}
				good, nUp, nDown := true, 0, 0
				w := ""
				positive := func(b, to *ssa.BasicBlock) bool {
					fs := append([]core.Fact{}, core.FactsAt(b)...)
					for _, f := range fs {
						if cmp, ok := f.AsCmp(); ok && cmp.X == ssa.Value(n) {
							if k, isK := core.ConstInt(cmp.Y); isK && ((cmp.Op == token.GTR && k >= 0) || (cmp.Op == token.GEQ && k >= 1) || (cmp.Op == token.NEQ && k == 0)) {
								return true
							}
						}
					}
					return false
				}
				for k, pb := range h.Preds {
					e := n.Edges[k]
					if !inLoop(pb) {
						if v, isK := core.ConstInt(e); !isK || v != 0 {
							good, w = false, "the count does not start at zero"
						}
						continue
					}
					d := core.LinOf(e, nil).Add(core.LinOf(n, nil), -1)
					isConst := true
					for _, cf := range d.Coef {
						if cf != 0 {
							isConst = false
						}
					}
					switch {
					case !isConst:
						good, w = false, "the count is changed by something else than a constant"
					case anyTrue(pb, h, mStart):
						nUp++
						if d.Const != 1 {
							good, w = false, fmt.Sprintf("a nested start delimiter changes the count by %+d", d.Const)
						}
					case anyTrue(pb, h, mEnd):
						nDown++
						if d.Const != -1 || !positive(pb, h) {
							good, w = false, "an end delimiter inside the comment does not take exactly one off a positive count"
						}
					default:
						if d.Const != 0 {
							good, w = false, "the count changes on a path that matched no delimiter"
						}
					}
				}
				// the loop is left on an end delimiter only when the count is not positive
				for _, b := range fn.Blocks {
					if !inLoop(b) {
						continue
					}
					for _, sc := range b.Succs {
						if inLoop(sc) || !anyTrue(b, sc, mEnd) {
							continue
						}
						closed := false
						fs := append([]core.Fact{}, core.FactsAt(b)...)
						if ifi, ok := b.Instrs[len(b.Instrs)-1].(*ssa.If); ok && len(b.Succs) == 2 {
							fs = append(fs, core.Fact{Cond: ifi.Cond, Truth: b.Succs[0] == sc, If: ifi})
						}
						for _, f := range fs {
							if cmp, ok := f.AsCmp(); ok && cmp.X == ssa.Value(n) {
								if k, isK := core.ConstInt(cmp.Y); isK && ((cmp.Op == token.LEQ && k == 0) || (cmp.Op == token.EQL && k == 0) || (cmp.Op == token.LSS && k == 1)) {
									closed = true
								}
							}
						}
						if !closed {
							good, w = false, "the comment can end on an end delimiter while the count is positive"
						}
					}
				}
				if good && nUp > 0 && nDown > 0 {
					okCounter, why = true, fmt.Sprintf("counter %s: +1 on %d way(s) back after a nested start, -1 (behind count > 0) on %d way(s) back after an end, unchanged otherwise; the comment ends at count 0", n.Comment, nUp, nDown)
				} else if w != "" && nUp+nDown > 0 {
					why = w
				}
			}
			c.R.Check(okCounter, "R18.13", fn.Name()+": the depth of nested comments is counted", p.Pos(nc.Pos()), why,
				why+": a comment nested two or more levels deep is closed by the wrong end delimiter and the rest of it is lexed as code")
		}
	}
	c.R.Count("R18.13:loops that read comments of languages with nested comments", nLoops)
	if nLoops == 0 {
		c.R.Info("R18.13", "nested comments", "-", "no loop tests Language.NestedComments")
	}
}

// checkNewlineEndsString: R18.17. Some languages end a string literal at the end of the line (a quote inside an unquoted
// regular expression). That exit is taken for a newline only, whatever the language: the code behind a test `c == '\n'` that
// stands under a test of the language is entered from that test alone. (With `lang == A || lang == B && c == '\n'` the code
// is entered for every rune when the language is A: any ordinary character ends the string and its contents are lexed as
// code and comments.)
func checkNewlineEndsString(c *Ctx, p *core.Prog, lexFns []*ssa.Function) {
	n := 0
	for _, fn := range lexFns {
		isLangTest := func(v ssa.Value) bool {
			bo, ok := v.(*ssa.BinOp)
			if !ok || (bo.Op != token.EQL && bo.Op != token.NEQ) {
				return false
			}
			for _, o := range []ssa.Value{bo.X, bo.Y} {
				if ld, ok := o.(*ssa.UnOp); ok {
					if fa, ok := ld.X.(*ssa.FieldAddr); ok && strings.Contains(core.TypeName(fa.Type()), "language.Language") {
						return true
					}
				}
			}
			return false
		}
		cdeps := core.NewPostDom(fn).TransitiveControlDeps()
		for _, b := range fn.Blocks {
			ifi, ok := b.Instrs[len(b.Instrs)-1].(*ssa.If)
			if !ok {
				continue
			}
			bo, ok := ifi.Cond.(*ssa.BinOp)
			if !ok || bo.Op != token.EQL {
				continue
			}
			if k, isK := core.ConstInt(bo.Y); !isK || k != '\n' {
				continue
			}
			// the language tests directly in front of the newline test (the chain of `||` alternatives)
			langs := map[*ssa.BasicBlock]bool{}
			var back func(x *ssa.BasicBlock, depth int)
			back = func(x *ssa.BasicBlock, depth int) {
				for _, pr := range x.Preds {
					if langs[pr] || depth > 6 {
						continue
					}
					if di, ok := pr.Instrs[len(pr.Instrs)-1].(*ssa.If); ok && isLangTest(di.Cond) && cdeps[b][pr] {
						langs[pr] = true
						back(pr, depth+1)
					}
				}
			}
			back(b, 0)
			if len(langs) == 0 {
				continue
			}
			n++
			// every outcome of such a language test leads to the newline test, to the next language test, or to where the
			// newline test goes when it fails - never straight to the code behind the newline test
			okT := true
			for l := range langs {
				for _, sc := range l.Succs {
					if sc != b && !langs[sc] && sc != b.Succs[1] {
						okT = false
					}
				}
			}
			c.R.Check(okT, "R18.17", core.ShortFn(fn)+": the end-of-line exit from a string literal is taken for a newline only", p.Pos(ifi.Cond.Pos()),
				"the code behind `c == '\\n'` is entered from that test alone", "the code behind the newline test can also be entered without the test having held (the language test joins it by `||` without parentheses): for that language every rune ends the string, and text inside string literals is reported as comments")
		}
	}
	c.R.Count("R18.17:newline tests under a language test in the lexer", n)
}
