package eng

// E3: non-interference. Values derived from an observer configuration (tracing)
// may only decide whether observer calls happen; nothing computed under such a
// condition may flow back into the computation.

import (
	"fmt"
	"go/token"
	"go/types"

	"golang.org/x/tools/go/ssa"

	"lcv/core"
)

type NIConfig struct {
	P *core.Prog
	// IsSource: the value is observer configuration (e.g. result of a trace predicate).
	IsSource func(v ssa.Value) bool
	// IsConfigPtr: the value is the observer object itself (may only be a receiver of observer calls).
	IsConfigPtr func(v ssa.Value) bool
	// ObserverCall: the call is an observer call (allowed inside guarded regions and as user of config).
	ObserverCall func(cc *ssa.CallCommon) bool
	// PureFormatting: calls allowed inside guarded regions to prepare observer arguments.
	PureFormatting func(cc *ssa.CallCommon) bool
}

type NIFinding struct {
	Construct string
	Pos       token.Pos
	Detail    string
}

type NIResult struct {
	Guards   int // tainted conditions found
	Sources  int
	Findings []NIFinding
}

// CheckNonInterference analyses one function.
func CheckNonInterference(cfg *NIConfig, fn *ssa.Function, res *NIResult) {
	if len(fn.Blocks) == 0 {
		return
	}
	tainted := map[ssa.Value]bool{}
	for _, b := range fn.Blocks {
		for _, in := range b.Instrs {
			if v, ok := in.(ssa.Value); ok && cfg.IsSource(v) {
				tainted[v] = true
				res.Sources++
			}
		}
	}
	if len(tainted) == 0 {
		// still check uses of the config pointer
		checkConfigPtrUses(cfg, fn, res)
		return
	}
	pd := core.NewPostDom(fn)
	tcd := pd.TransitiveControlDeps()
	report := func(in ssa.Instruction, construct, detail string) {
		res.Findings = append(res.Findings, NIFinding{Construct: core.ShortFn(fn) + ": " + construct, Pos: in.Pos(), Detail: detail})
	}
	// fixed point: data taint through NOT / phi, control taint through regions
	taintedIf := map[*ssa.BasicBlock]bool{}
	changed := true
	for changed {
		changed = false
		for _, b := range fn.Blocks {
			if len(b.Instrs) == 0 {
				continue
			}
			if ifi, ok := b.Instrs[len(b.Instrs)-1].(*ssa.If); ok && tainted[ifi.Cond] && !taintedIf[b] {
				taintedIf[b] = true
				changed = true
			}
		}
		inRegion := func(b *ssa.BasicBlock) bool {
			for d := range tcd[b] {
				if taintedIf[d] {
					return true
				}
			}
			return false
		}
		for _, b := range fn.Blocks {
			for _, in := range b.Instrs {
				switch x := in.(type) {
				case *ssa.UnOp:
					if x.Op == token.NOT && tainted[x.X] && !tainted[x] {
						tainted[x] = true
						changed = true
					}
				case *ssa.Phi:
					t := false
					for i, e := range x.Edges {
						if tainted[e] || inRegion(b.Preds[i]) || taintedIf[b.Preds[i]] && differs(x) {
							t = true
						}
					}
					if t && !tainted[x] {
						tainted[x] = true
						changed = true
					}
				case *ssa.BinOp:
					if (tainted[x.X] || tainted[x.Y]) && !tainted[x] {
						tainted[x] = true
						changed = true
					}
				}
			}
		}
	}
	inRegion := func(b *ssa.BasicBlock) bool {
		for d := range tcd[b] {
			if taintedIf[d] {
				return true
			}
		}
		return false
	}
	res.Guards += len(taintedIf)
	// 1. uses of tainted values
	for v := range tainted {
		refs := v.Referrers()
		if refs == nil {
			continue
		}
		if _, isBool := v.Type().Underlying().(*types.Basic); !isBool || v.Type().Underlying().(*types.Basic).Kind() != types.Bool {
			if in, ok := v.(ssa.Instruction); ok {
				report(in, "value of type "+shortType(v.Type())+" depends on the trace configuration", "a non-boolean value is data- or control-dependent on the observer configuration: "+v.String())
			}
			continue
		}
		for _, u := range *refs {
			switch x := u.(type) {
			case *ssa.If, *ssa.Phi, *ssa.DebugRef:
			case *ssa.UnOp:
				if x.Op != token.NOT {
					report(u, "trace predicate used in "+x.String(), "observer configuration flows into the computation")
				}
			case *ssa.BinOp:
				// && / || on bools are lowered to control flow; == on bools is still only a predicate
			case *ssa.Return:
				report(u, "trace predicate returned from a function that is not part of the observer", "observer configuration escapes through a return value")
			case ssa.CallInstruction:
				if !cfg.ObserverCall(x.Common()) {
					report(u, "trace predicate passed to "+calleeName(x.Common()), "observer configuration flows into the computation")
				}
			default:
				report(u, "trace predicate used by "+u.String(), "observer configuration flows into the computation")
			}
		}
	}
	// 2. guarded regions contain only observer work
	for _, b := range fn.Blocks {
		if !inRegion(b) {
			continue
		}
		for _, in := range b.Instrs {
			switch x := in.(type) {
			case *ssa.Jump, *ssa.If, *ssa.DebugRef, *ssa.Phi,
				*ssa.FieldAddr, *ssa.Field, *ssa.IndexAddr, *ssa.Index, *ssa.BinOp, *ssa.Slice, *ssa.MakeInterface,
				*ssa.Convert, *ssa.ChangeType, *ssa.Extract, *ssa.Lookup, *ssa.ChangeInterface:
			case *ssa.UnOp:
				if x.Op == token.ARROW {
					report(in, "channel receive under a trace condition", "guarded region does more than observe")
				}
			case *ssa.Alloc:
				// varargs arrays
			case *ssa.Store:
				if al := rootAlloc(x.Addr); al == nil || !inRegion(al.Block()) {
					report(in, "store under a trace condition to "+describeAddr(x.Addr), "guarded region writes memory that lives outside it")
				}
			case *ssa.Return:
				report(in, "return under a trace condition", "control flow of the computation depends on the observer configuration")
			case *ssa.Panic:
				report(in, "panic under a trace condition", "control flow of the computation depends on the observer configuration")
			case ssa.CallInstruction:
				cc := x.Common()
				if b, ok := cc.Value.(*ssa.Builtin); ok {
					switch b.Name() {
					case "len", "cap":
						continue
					}
					report(in, "builtin "+b.Name()+" under a trace condition", "guarded region does more than observe")
					continue
				}
				if cfg.ObserverCall(cc) || cfg.PureFormatting(cc) {
					continue
				}
				if f := cc.StaticCallee(); f != nil && core.InRepo(f) && isPureSmall(f) {
					continue
				}
				report(in, "call of "+calleeName(cc)+" under a trace condition", "guarded region does more than observe")
			default:
				report(in, fmt.Sprintf("%T under a trace condition", in), "guarded region does more than observe")
			}
			// values defined in the region must not be used outside it (except through tainted phis)
			if v, ok := in.(ssa.Value); ok {
				if refs := v.Referrers(); refs != nil {
					for _, u := range *refs {
						if _, isDbg := u.(*ssa.DebugRef); isDbg {
							continue
						}
						if inRegion(u.Block()) {
							continue
						}
						if phi, ok := u.(*ssa.Phi); ok && tainted[phi] {
							continue // reported above if non-bool
						}
						report(u, "value computed under a trace condition is used outside it: "+v.Name(), "result of the computation depends on the observer configuration")
					}
				}
			}
		}
	}
	checkConfigPtrUses(cfg, fn, res)
}

// differs: phi has at least two distinct incoming values.
func differs(p *ssa.Phi) bool {
	for _, e := range p.Edges[1:] {
		if e != p.Edges[0] {
			return true
		}
	}
	return false
}

func rootAlloc(v ssa.Value) *ssa.Alloc {
	for i := 0; i < 8; i++ {
		switch x := v.(type) {
		case *ssa.Alloc:
			return x
		case *ssa.IndexAddr:
			v = x.X
		case *ssa.FieldAddr:
			v = x.X
		case *ssa.Slice:
			v = x.X
		default:
			return nil
		}
	}
	return nil
}

// isPureSmall: single-block accessor without calls or stores.
func isPureSmall(f *ssa.Function) bool {
	if len(f.Blocks) != 1 {
		return false
	}
	for _, in := range f.Blocks[0].Instrs {
		switch x := in.(type) {
		case *ssa.Store, *ssa.MapUpdate, *ssa.Send, *ssa.Go, *ssa.Defer:
			return false
		case *ssa.Call:
			if b, ok := x.Call.Value.(*ssa.Builtin); !ok || (b.Name() != "len" && b.Name() != "cap") {
				return false
			}
		}
	}
	return true
}

func checkConfigPtrUses(cfg *NIConfig, fn *ssa.Function, res *NIResult) {
	if cfg.IsConfigPtr == nil {
		return
	}
	for _, b := range fn.Blocks {
		for _, in := range b.Instrs {
			v, ok := in.(ssa.Value)
			if !ok || !cfg.IsConfigPtr(v) {
				continue
			}
			refs := v.Referrers()
			if refs == nil {
				continue
			}
			for _, u := range *refs {
				switch x := u.(type) {
				case *ssa.DebugRef:
				case ssa.CallInstruction:
					if !cfg.ObserverCall(x.Common()) {
						res.Findings = append(res.Findings, NIFinding{Construct: core.ShortFn(fn) + ": trace configuration passed to " + calleeName(x.Common()), Pos: u.Pos(), Detail: "the observer object may only be the receiver of observer calls"})
					}
				default:
					res.Findings = append(res.Findings, NIFinding{Construct: core.ShortFn(fn) + ": trace configuration used by " + u.String(), Pos: u.Pos(), Detail: "the observer object may only be the receiver of observer calls"})
				}
			}
		}
	}
}
