package eng

// A second, more general evaluator for comparators (DESIGN.md §3 E2): it follows calls of repository functions and
// understands three-way results (strings.Compare, hand-written compareInts/compareFloats, `return -c`), so that
// `Less(i, j) = compare(i, j) < 0` can be decided like a plain boolean comparator. It interprets the SSA of the comparator
// for one assignment of {<,=,>} to the compared keys; values are symbolic where they stand for (an expression over the
// fields of) element i or element j, and concrete (int, bool) where the code computes with the outcome of comparisons.

import (
	"fmt"
	"go/constant"
	"go/token"
	"go/types"
	"sort"

	"golang.org/x/tools/go/ssa"
)

type symKind int

const (
	skOpaque  symKind = iota
	skColl            // the collection that is sorted
	skIdx             // index i (side 0) or j (side 1)
	skElem            // an expression over the fields of one element: side, key
	skWhole           // a whole element (pointer to it or its value): side
	skDiff            // elem(side0).key - elem(side1).key (sign +1) or the reverse (sign -1)
	skAbsDiff         // |difference| of key
	skInt
	skBool
	skConst // a constant that is neither int nor bool (a float bound, nil)
)

type sym struct {
	k    symKind
	side int
	key  string
	lin  map[string]int64
	i    int64
	b    bool
	f    float64
	sign int
}

type cmp3 struct {
	rel   map[string]tri
	keys  map[string]map[string]int64 // discovered keys -> linear form
	steps int
}

func (c *cmp3) fail(msg string) { panic(undecidedErr(msg)) }

func (c *cmp3) relOf(key string, lin map[string]int64) tri {
	if _, ok := c.keys[key]; !ok {
		c.keys[key] = lin
	}
	return c.rel[key]
}

func (c *cmp3) run(fn *ssa.Function, args []sym, depth int) []sym {
	if depth > 4 {
		c.fail("comparator call chain deeper than 4")
	}
	if len(fn.Blocks) == 0 {
		c.fail("comparator calls " + fn.String() + " (no body)")
	}
	env := map[ssa.Value]sym{}
	for i, p := range fn.Params {
		if i < len(args) {
			env[p] = args[i]
		}
	}
	for _, fv := range fn.FreeVars {
		// the collection captured by a sort.Slice closure
		t := fv.Type()
		if pt, ok := t.Underlying().(*types.Pointer); ok {
			t = pt.Elem()
		}
		if _, ok := t.Underlying().(*types.Slice); ok {
			env[fv] = sym{k: skColl}
		}
	}
	var val func(v ssa.Value) sym
	val = func(v ssa.Value) sym {
		if s, ok := env[v]; ok {
			return s
		}
		if cst, ok := v.(*ssa.Const); ok {
			if cst.Value == nil {
				return sym{k: skConst}
			}
			switch cst.Value.Kind() {
			case constant.Bool:
				return sym{k: skBool, b: constant.BoolVal(cst.Value)}
			case constant.Int:
				n, _ := constant.Int64Val(cst.Value)
				return sym{k: skInt, i: n}
			case constant.Float:
				f, _ := constant.Float64Val(cst.Value)
				return sym{k: skConst, f: f}
			}
			return sym{k: skConst}
		}
		return sym{k: skOpaque}
	}
	b := fn.Blocks[0]
	var prev *ssa.BasicBlock
	for {
		for _, in := range b.Instrs {
			c.steps++
			if c.steps > 20000 {
				c.fail("no termination")
			}
			switch x := in.(type) {
			case *ssa.DebugRef:
			case *ssa.Phi:
				for k, p := range b.Preds {
					if p == prev {
						env[x] = val(x.Edges[k])
					}
				}
			case *ssa.IndexAddr:
				base, idx := val(x.X), val(x.Index)
				if base.k == skColl && idx.k == skIdx {
					env[x] = sym{k: skWhole, side: idx.side}
				} else {
					env[x] = sym{k: skOpaque}
				}
			case *ssa.Index:
				base, idx := val(x.X), val(x.Index)
				if base.k == skColl && idx.k == skIdx {
					env[x] = sym{k: skWhole, side: idx.side}
				} else {
					env[x] = sym{k: skOpaque}
				}
			case *ssa.FieldAddr:
				base := val(x.X)
				if base.k == skWhole {
					st := x.X.Type().Underlying().(*types.Pointer).Elem().Underlying().(*types.Struct)
					n := st.Field(x.Field).Name()
					env[x] = sym{k: skElem, side: base.side, key: n, lin: map[string]int64{n: 1}}
				} else {
					env[x] = sym{k: skOpaque}
				}
			case *ssa.Field:
				base := val(x.X)
				if base.k == skWhole {
					st := x.X.Type().Underlying().(*types.Struct)
					n := st.Field(x.Field).Name()
					env[x] = sym{k: skElem, side: base.side, key: n, lin: map[string]int64{n: 1}}
				} else {
					env[x] = sym{k: skOpaque}
				}
			case *ssa.UnOp:
				a := val(x.X)
				switch x.Op {
				case token.MUL:
					// a load: of the collection (spilled free variable), of an element, of a field address
					if _, isFV := x.X.(*ssa.FreeVar); isFV && a.k == skColl {
						env[x] = a
					} else if a.k == skWhole || a.k == skElem || a.k == skColl {
						env[x] = a
					} else {
						env[x] = sym{k: skOpaque}
					}
				case token.NOT:
					if a.k != skBool {
						c.fail("negation of a value that is not a decided boolean")
					}
					env[x] = sym{k: skBool, b: !a.b}
				case token.SUB:
					if a.k != skInt {
						c.fail("negation of a value that is not a decided integer")
					}
					env[x] = sym{k: skInt, i: -a.i}
				default:
					env[x] = sym{k: skOpaque}
				}
			case *ssa.Convert:
				env[x] = val(x.X)
			case *ssa.ChangeType:
				env[x] = val(x.X)
			case *ssa.BinOp:
				env[x] = c.binop(x, val(x.X), val(x.Y))
			case *ssa.Call:
				env[x] = c.call(x, val, depth)
			case *ssa.Extract:
				env[x] = sym{k: skOpaque}
			case *ssa.If:
				cv := val(x.Cond)
				if cv.k != skBool {
					c.fail("branch on a value that is not decided by the compared keys: " + x.Cond.String())
				}
				prev = b
				if cv.b {
					b = b.Succs[0]
				} else {
					b = b.Succs[1]
				}
				goto next
			case *ssa.Jump:
				prev = b
				b = b.Succs[0]
				goto next
			case *ssa.Return:
				out := make([]sym, len(x.Results))
				for i, r := range x.Results {
					out[i] = val(r)
				}
				return out
			default:
				c.fail("unsupported instruction in a comparator: " + in.String())
			}
		}
		c.fail("block without terminator")
	next:
	}
}

func (c *cmp3) binop(x *ssa.BinOp, a, b sym) sym {
	switch x.Op {
	case token.EQL, token.NEQ, token.LSS, token.LEQ, token.GTR, token.GEQ:
		switch {
		case a.k == skElem && b.k == skElem && a.key == b.key && a.side != b.side:
			r := c.relOf(a.key, a.lin)
			if a.side == 1 {
				r = -r
			}
			return sym{k: skBool, b: evalTri(x.Op, r)}
		case a.k == skInt && b.k == skInt:
			var r tri
			if a.i < b.i {
				r = -1
			} else if a.i > b.i {
				r = 1
			}
			return sym{k: skBool, b: evalTri(x.Op, r)}
		case a.k == skBool && b.k == skBool && (x.Op == token.EQL || x.Op == token.NEQ):
			return sym{k: skBool, b: (a.b == b.b) == (x.Op == token.EQL)}
		case a.k == skAbsDiff && b.k == skConst && x.Op == token.LSS && b.f > 0 && b.f <= 1e-300:
			return sym{k: skBool, b: c.relOf(a.key, a.lin) == 0}
		case a.k == skElem && (b.k == skInt || b.k == skConst) || b.k == skElem && (a.k == skInt || a.k == skConst):
			c.fail("an element is compared with a constant, not with the other element: " + x.String())
		}
		c.fail("comparison that is not an expression over element i against the same expression over element j: " + x.String())
	case token.ADD, token.SUB, token.MUL:
		if a.k == skInt && b.k == skInt {
			switch x.Op {
			case token.ADD:
				return sym{k: skInt, i: a.i + b.i}
			case token.SUB:
				return sym{k: skInt, i: a.i - b.i}
			default:
				return sym{k: skInt, i: a.i * b.i}
			}
		}
		if x.Op == token.SUB && a.k == skElem && b.k == skElem && a.key == b.key && a.side != b.side {
			sg := 1
			if a.side == 1 {
				sg = -1
			}
			return sym{k: skDiff, key: a.key, lin: a.lin, sign: sg}
		}
		// an expression over ONE element
		sideOf := func(s sym) (int, string, map[string]int64, bool) {
			switch s.k {
			case skElem:
				return s.side, s.key, s.lin, true
			case skInt:
				return -1, fmt.Sprint(s.i), map[string]int64{}, true
			}
			return 0, "", nil, false
		}
		s1, k1, l1, ok1 := sideOf(a)
		s2, k2, l2, ok2 := sideOf(b)
		if ok1 && ok2 && (s1 == -1 || s2 == -1 || s1 == s2) && !(s1 == -1 && s2 == -1) {
			sd := s1
			if sd == -1 {
				sd = s2
			}
			var lin map[string]int64
			if l1 != nil && l2 != nil && x.Op != token.MUL {
				lin = map[string]int64{}
				for f, n := range l1 {
					lin[f] += n
				}
				for f, n := range l2 {
					if x.Op == token.ADD {
						lin[f] += n
					} else {
						lin[f] -= n
					}
				}
			}
			return sym{k: skElem, side: sd, key: "(" + k1 + x.Op.String() + k2 + ")", lin: lin}
		}
		return sym{k: skOpaque}
	case token.LAND, token.LOR:
	}
	return sym{k: skOpaque}
}

func (c *cmp3) call(x *ssa.Call, val func(ssa.Value) sym, depth int) sym {
	if _, isB := x.Call.Value.(*ssa.Builtin); isB {
		return sym{k: skOpaque}
	}
	g := x.Call.StaticCallee()
	if g == nil {
		c.fail("comparator calls " + x.Call.Value.String())
	}
	args := make([]sym, len(x.Call.Args))
	for i, a := range x.Call.Args {
		args[i] = val(a)
	}
	switch g.String() {
	case "math.Abs":
		if len(args) == 1 && args[0].k == skDiff {
			return sym{k: skAbsDiff, key: args[0].key, lin: args[0].lin}
		}
		c.fail("math.Abs of something that is not the difference of one field of the two elements")
	case "strings.Compare", "cmp.Compare", "bytes.Compare":
		a, b := args[0], args[1]
		if a.k == skElem && b.k == skElem && a.key == b.key && a.side != b.side {
			r := c.relOf(a.key, a.lin)
			if a.side == 1 {
				r = -r
			}
			return sym{k: skInt, i: int64(r)}
		}
		c.fail(g.String() + " of values that are not the same expression over the two elements")
	}
	if g.Pkg == nil || len(g.Blocks) == 0 {
		c.fail("comparator calls " + g.String())
	}
	out := c.run(g, args, depth+1)
	if len(out) != 1 {
		c.fail("comparator calls " + g.String() + ", which does not return one value")
	}
	return out[0]
}

// evalLess3 evaluates the comparator fn for one relation assignment; keys collects the keys it compared.
func evalLess3(fn *ssa.Function, rel map[string]tri, keys map[string]map[string]int64) (res bool, err error) {
	defer func() {
		if r := recover(); r != nil {
			if u, ok := r.(undecidedErr); ok {
				err = fmt.Errorf("%s", string(u))
				return
			}
			panic(r)
		}
	}()
	c := &cmp3{rel: rel, keys: keys}
	n := len(fn.Params)
	args := make([]sym, n)
	for i := range args {
		args[i] = sym{k: skOpaque}
	}
	if n >= 2 {
		args[n-2] = sym{k: skIdx, side: 0}
		args[n-1] = sym{k: skIdx, side: 1}
	}
	if n == 3 {
		args[0] = sym{k: skColl}
	}
	out := c.run(fn, args, 0)
	if len(out) != 1 || out[0].k != skBool {
		return false, fmt.Errorf("the comparator's result is not decided by the compared keys")
	}
	return out[0].b, nil
}

// discoverKeys3: the keys the comparator compares when every comparison so far came out equal (so that it walks through
// all its tie-breaks), found by repeated evaluation until no new key shows up.
func discoverKeys3(fn *ssa.Function) (map[string]map[string]int64, error) {
	keys := map[string]map[string]int64{}
	for round := 0; round < 12; round++ {
		before := len(keys)
		if _, err := evalLess3(fn, map[string]tri{}, keys); err != nil {
			return nil, err
		}
		if len(keys) == before {
			break
		}
	}
	return keys, nil
}

func sortedKeys3(m map[string]map[string]int64) []string {
	var out []string
	for k := range m {
		out = append(out, k)
	}
	sort.Strings(out)
	return out
}
