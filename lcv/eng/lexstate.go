package eng

// E8c: lexer consumption typestate. A forward may-analysis over the SSA CFG of a
// hand-written lexer built from peek / read / unread / match primitives.
//
//	Decided  – a peek happened since the last delimiter, or a match-like call just failed
//	Boundary – a match-like call just succeeded: a delimiter was consumed and nothing has been
//	           decided about what follows
//	Credit   – an unread is pending
//
// Violation: a consuming read reachable in state Boundary (unless its result can flow to the
// argument of unread: the read-test-unread idiom is a peek).

import (
	"fmt"
	"go/token"
	"sort"
	"strings"

	"golang.org/x/tools/go/ssa"
)

type LexConfig struct {
	Peek      *ssa.Function
	Read      *ssa.Function
	Unread    *ssa.Function
	EOF       *ssa.Function
	MatchLike []*ssa.Function // methods that look ahead and consume on success; first result is the bool
}

type LexFinding struct {
	Key    string
	Pos    token.Pos
	Detail string
}

type LexResult struct {
	Reads      int
	MatchCalls int
	Findings   []LexFinding
	Blocks     int
}

func methodName(cc *ssa.CallCommon) *ssa.Function {
	f := cc.StaticCallee()
	if f == nil || f.Signature.Recv() == nil {
		return nil
	}
	return f
}

func contains(l []*ssa.Function, s *ssa.Function) bool {
	if s == nil {
		return false
	}
	for _, x := range l {
		if x == s {
			return true
		}
	}
	return false
}

// flowsToUnread: the value returned by a read can reach the argument of an unread call.
func flowsToUnread(v ssa.Value, unread *ssa.Function, seen map[ssa.Value]bool) bool {
	if seen[v] {
		return false
	}
	seen[v] = true
	refs := v.Referrers()
	if refs == nil {
		return false
	}
	for _, r := range *refs {
		switch x := r.(type) {
		case *ssa.Phi:
			if flowsToUnread(x, unread, seen) {
				return true
			}
		case ssa.CallInstruction:
			if methodName(x.Common()) == unread {
				for _, a := range x.Common().Args[1:] {
					if a == v {
						return true
					}
				}
			}
		}
	}
	return false
}

func isDiscarded(v ssa.Value) bool {
	refs := v.Referrers()
	if refs == nil {
		return true
	}
	for _, r := range *refs {
		if _, ok := r.(*ssa.DebugRef); !ok {
			return false
		}
	}
	return true
}

// AnalyzeLexer runs the typestate analysis on fn.
func AnalyzeLexer(fn *ssa.Function, cfg LexConfig) *LexResult {
	res := &LexResult{Blocks: len(fn.Blocks)}
	type stateSet map[string]bool
	in := map[*ssa.BasicBlock]stateSet{}
	in[fn.Blocks[0]] = stateSet{"D": true}
	work := []*ssa.BasicBlock{fn.Blocks[0]}
	found := map[string]LexFinding{}
	add := func(dst *ssa.BasicBlock, st stateSet) {
		cur := in[dst]
		if cur == nil {
			cur = stateSet{}
			in[dst] = cur
		}
		changed := false
		for s := range st {
			if !cur[s] {
				cur[s] = true
				changed = true
			}
		}
		if changed {
			work = append(work, dst)
		}
	}
	origins := map[ssa.Value]string{} // match-like call value -> origin description
	for len(work) > 0 {
		b := work[len(work)-1]
		work = work[:len(work)-1]
		st := stateSet{}
		for s := range in[b] {
			st[s] = true
		}
		for _, ins := range b.Instrs {
			call, ok := ins.(ssa.CallInstruction)
			if !ok {
				continue
			}
			name := methodName(call.Common())
			switch {
			case name == nil:
			case name == cfg.Peek:
				st = stateSet{"D": true}
			case name == cfg.Unread:
				st = stateSet{"C": true}
			case name == cfg.Read:
				v, _ := ins.(ssa.Value)
				peekIdiom := v != nil && flowsToUnread(v, cfg.Unread, map[ssa.Value]bool{})
				for s := range st {
					if strings.HasPrefix(s, "B:") && !peekIdiom {
						use := "content"
						if v == nil || isDiscarded(v) {
							use = "discarded"
						}
						origin := strings.TrimPrefix(s, "B:")
						key := fmt.Sprintf("%s: %s (%s) right after a successful %s", "lex", "readRune", use, origin)
						if _, dup := found[key]; !dup {
							d := "a delimiter was just consumed by " + origin + " and the next rune is consumed without being examined"
							if use == "discarded" {
								d += ": the first rune of an adjacent lexeme is swallowed"
							} else {
								d += ": it becomes content before the end delimiter was tested"
							}
							found[key] = LexFinding{Key: key, Pos: ins.Pos(), Detail: d}
						}
					}
				}
				res.Reads++
				st = stateSet{"D": true}
			case contains(cfg.MatchLike, name):
				v, _ := ins.(ssa.Value)
				o := roleName(cfg, name) + "("
				for i, a := range call.Common().Args[1:] {
					if i > 0 {
						o += ", "
					}
					o += lexArgDesc(cfg, a)
				}
				o += ")"
				if v != nil {
					origins[v] = o
				}
				st = stateSet{"P:" + o: true}
			}
		}
		// terminator
		last := b.Instrs[len(b.Instrs)-1]
		if ifi, ok := last.(*ssa.If); ok {
			cond := ifi.Cond
			neg := false
			for {
				if u, ok := cond.(*ssa.UnOp); ok && u.Op == token.NOT {
					cond, neg = u.X, !neg
					continue
				}
				break
			}
			var o string
			isMatch := false
			if ov, ok := origins[cond]; ok {
				o, isMatch = ov, true
			} else if ex, ok := cond.(*ssa.Extract); ok && ex.Index == 0 {
				if ov, ok := origins[ex.Tuple]; ok {
					o, isMatch = ov, true
				}
			}
			if isMatch && st["P:"+o] {
				t, f := stateSet{"B:" + o: true}, stateSet{"D": true}
				if neg {
					t, f = f, t
				}
				add(b.Succs[0], t)
				add(b.Succs[1], f)
				continue
			}
		}
		// unresolved pending states are treated as Boundary (the match may have consumed)
		out := stateSet{}
		for s := range st {
			if strings.HasPrefix(s, "P:") {
				out["B:"+strings.TrimPrefix(s, "P:")] = true
			} else {
				out[s] = true
			}
		}
		for _, s := range b.Succs {
			add(s, out)
		}
	}
	for _, b := range fn.Blocks {
		for _, ins := range b.Instrs {
			if call, ok := ins.(ssa.CallInstruction); ok && contains(cfg.MatchLike, methodName(call.Common())) {
				res.MatchCalls++
			}
		}
	}
	var keys []string
	for k := range found {
		keys = append(keys, k)
	}
	sort.Strings(keys)
	for _, k := range keys {
		res.Findings = append(res.Findings, found[k])
	}
	// res.Reads counted per visit; recount statically
	res.Reads = 0
	for _, b := range fn.Blocks {
		for _, ins := range b.Instrs {
			if call, ok := ins.(ssa.CallInstruction); ok && methodName(call.Common()) == cfg.Read {
				res.Reads++
			}
		}
	}
	return res
}

// NonProgressCycles finds loops of fn that can iterate without passing a consuming call
// (a read, or the success edge of a match-like call).
func NonProgressCycles(fn *ssa.Function, cfg LexConfig) []*ssa.BasicBlock {
	// blocks that contain a read call are "progress" blocks; edges leaving an If on the success of a
	// match-like call are progress edges.
	progressBlock := map[*ssa.BasicBlock]bool{}
	matchVals := map[ssa.Value]bool{}
	for _, b := range fn.Blocks {
		for _, ins := range b.Instrs {
			if call, ok := ins.(ssa.CallInstruction); ok {
				n := methodName(call.Common())
				if n == cfg.Read {
					progressBlock[b] = true
				}
				if contains(cfg.MatchLike, n) {
					if v, ok := ins.(ssa.Value); ok {
						matchVals[v] = true
					}
				}
			}
		}
	}
	progressEdge := func(from *ssa.BasicBlock, k int) bool {
		ifi, ok := from.Instrs[len(from.Instrs)-1].(*ssa.If)
		if !ok {
			return false
		}
		cond := ifi.Cond
		neg := false
		for {
			if u, ok := cond.(*ssa.UnOp); ok && u.Op == token.NOT {
				cond, neg = u.X, !neg
				continue
			}
			break
		}
		is := matchVals[cond]
		if ex, ok := cond.(*ssa.Extract); ok && ex.Index == 0 && matchVals[ex.Tuple] {
			is = true
		}
		if !is {
			return false
		}
		if neg {
			return k == 1
		}
		return k == 0
	}
	var bad []*ssa.BasicBlock
	for _, h := range fn.Blocks {
		isHeader := false
		for _, p := range h.Preds {
			if h.Dominates(p) {
				isHeader = true
			}
		}
		if !isHeader {
			continue
		}
		// only loops that look at the input (peek / eof / match-like / read) are lexing loops; a
		// counting loop that only pushes runes back is not
		looks := false
		for _, b := range fn.Blocks {
			if !h.Dominates(b) {
				continue
			}
			inLoop := b == h
			for _, p := range h.Preds {
				if h.Dominates(p) && (p == b || reachesWithin(b, p, h)) {
					inLoop = true
				}
			}
			if !inLoop {
				continue
			}
			for _, ins := range b.Instrs {
				if call, ok := ins.(ssa.CallInstruction); ok {
					n := methodName(call.Common())
					if n == cfg.Peek || n == cfg.EOF || n == cfg.Read || contains(cfg.MatchLike, n) {
						looks = true
					}
				}
			}
		}
		if !looks {
			continue
		}
		// can h reach itself through non-progress blocks and edges?
		seen := map[*ssa.BasicBlock]bool{}
		var dfs func(b *ssa.BasicBlock) bool
		dfs = func(b *ssa.BasicBlock) bool {
			if progressBlock[b] {
				return false
			}
			for k, s := range b.Succs {
				if progressEdge(b, k) {
					continue
				}
				if s == h {
					return true
				}
				if !seen[s] && h.Dominates(s) {
					seen[s] = true
					if dfs(s) {
						return true
					}
				}
			}
			return false
		}
		if dfs(h) {
			bad = append(bad, h)
		}
	}
	return bad
}

// reachesWithin: from can reach to without leaving the region dominated by h.
func reachesWithin(from, to, h *ssa.BasicBlock) bool {
	seen := map[*ssa.BasicBlock]bool{}
	work := []*ssa.BasicBlock{from}
	for len(work) > 0 {
		b := work[len(work)-1]
		work = work[:len(work)-1]
		if b == to {
			return true
		}
		if seen[b] {
			continue
		}
		seen[b] = true
		for _, s := range b.Succs {
			if h.Dominates(s) && s != h {
				work = append(work, s)
			}
		}
	}
	return false
}

// roleName gives the role of a match-like function independent of its current name: the first
// configured match-like function is "match", the others are named after their result shape.
func roleName(cfg LexConfig, f *ssa.Function) string {
	for i, m := range cfg.MatchLike {
		if m == f {
			switch i {
			case 0:
				return "match"
			case 1:
				return "singleLineComment"
			case 2:
				return "multiLineComment"
			}
		}
	}
	return f.Name()
}

// lexArgDesc describes a delimiter argument without using source-level names.
func lexArgDesc(cfg LexConfig, v ssa.Value) string {
	switch x := v.(type) {
	case *ssa.Const:
		return x.Value.ExactString()
	case *ssa.Phi:
		return "local variable"
	case *ssa.Extract:
		if call, ok := x.Tuple.(*ssa.Call); ok {
			if f := call.Call.StaticCallee(); f != nil {
				return fmt.Sprintf("result %d of %s", x.Index, roleName(cfg, f))
			}
		}
		return fmt.Sprintf("result %d", x.Index)
	case *ssa.Call:
		if f := x.Call.StaticCallee(); f != nil {
			return "result of a call"
		}
	case *ssa.Parameter:
		return "parameter"
	}
	return "value"
}
