package eng

// E8c: lexer consumption typestate. A forward may-analysis over the SSA CFG of a
// hand-written lexer built from peek / read / unread / match primitives.
//
//	Decided  – a peek happened since the last delimiter, or a match-like call just failed
//	Boundary – a match-like call just succeeded: a delimiter was consumed and nothing has been
//	           decided about what follows
//	Credit   – an unread is pending
//
// Violation: a consuming read reachable in state Boundary (unless its result can flow to the
// argument of unread: the read-test-unread idiom is a peek).

import (
	"fmt"
	"go/token"
	"go/types"
	"sort"
	"strings"

	"golang.org/x/tools/go/ssa"
)

type LexConfig struct {
	Peek      *ssa.Function
	Read      *ssa.Function
	Unread    *ssa.Function
	EOF       *ssa.Function
	MatchLike []*ssa.Function // methods that look ahead and consume on success; first result is the bool
}

type LexFinding struct {
	Key    string
	Pos    token.Pos
	Detail string
}

type LexResult struct {
	Reads      int
	MatchCalls int
	Findings   []LexFinding
	Blocks     int
}

func methodName(cc *ssa.CallCommon) *ssa.Function {
	f := cc.StaticCallee()
	if f == nil || f.Signature.Recv() == nil {
		return nil
	}
	return f
}

func contains(l []*ssa.Function, s *ssa.Function) bool {
	if s == nil {
		return false
	}
	for _, x := range l {
		if x == s {
			return true
		}
	}
	return false
}

// flowsToUnread: the value returned by a read can reach the argument of an unread call.
func flowsToUnread(v ssa.Value, unread *ssa.Function, seen map[ssa.Value]bool) bool {
	if seen[v] {
		return false
	}
	seen[v] = true
	refs := v.Referrers()
	if refs == nil {
		return false
	}
	for _, r := range *refs {
		switch x := r.(type) {
		case *ssa.Phi:
			if flowsToUnread(x, unread, seen) {
				return true
			}
		case ssa.CallInstruction:
			if methodName(x.Common()) == unread {
				for _, a := range x.Common().Args[1:] {
					if a == v {
						return true
					}
				}
			}
		}
	}
	return false
}

func isDiscarded(v ssa.Value) bool {
	refs := v.Referrers()
	if refs == nil {
		return true
	}
	for _, r := range *refs {
		if _, ok := r.(*ssa.DebugRef); !ok {
			return false
		}
	}
	return true
}

type lexStateSet map[string]bool

func (s lexStateSet) key() string {
	var ks []string
	for k := range s {
		ks = append(ks, k)
	}
	sort.Strings(ks)
	return strings.Join(ks, "|")
}

func unionStates(dst lexStateSet, src lexStateSet) {
	for k := range src {
		dst[k] = true
	}
}

// lexSummary: states at the returns of a helper, split by the constant boolean it returns.
type lexSummary struct {
	onTrue, onFalse, other lexStateSet
}

type lexAnalysis struct {
	cfg   LexConfig
	recv  string // receiver type of the lexer methods
	found map[string]LexFinding
	memo  map[string]*lexSummary
	depth int
}

func (la *lexAnalysis) isHelper(f *ssa.Function) bool {
	if f == nil || len(f.Blocks) == 0 || f.Signature.Recv() == nil {
		return false
	}
	if f == la.cfg.Peek || f == la.cfg.Read || f == la.cfg.Unread || f == la.cfg.EOF || contains(la.cfg.MatchLike, f) {
		return false
	}
	if f.Signature.Recv().Type().String() != la.recv {
		return false
	}
	// does it (transitively, one level) use lexer primitives?
	for _, b := range f.Blocks {
		for _, ins := range b.Instrs {
			if call, ok := ins.(ssa.CallInstruction); ok {
				n := methodName(call.Common())
				if n != nil && (n == la.cfg.Peek || n == la.cfg.Read || n == la.cfg.Unread || contains(la.cfg.MatchLike, n) || (n != f && la.isHelper(n))) {
					return true
				}
			}
		}
	}
	return false
}

// run analyses fn from the given entry states and returns the states at its returns.
func (la *lexAnalysis) run(fn *ssa.Function, entry lexStateSet, argDesc []string) *lexSummary {
	mk := fmt.Sprintf("%p|%s|%v", fn, entry.key(), argDesc)
	if s, ok := la.memo[mk]; ok {
		return s
	}
	sum := &lexSummary{onTrue: lexStateSet{}, onFalse: lexStateSet{}, other: lexStateSet{}}
	la.memo[mk] = sum // recursion guard: a recursive call sees the (growing) summary
	if la.depth > 5 {
		unionStates(sum.other, entry)
		return sum
	}
	la.depth++
	defer func() { la.depth-- }()
	cfg := la.cfg
	// Path sensitivity for boolean flags: a boolean phi with constant edges that is branched on ("closed := false ...
	// closed = true; break ... if closed") is tracked as a tag on the states, so that the branch on the flag only lets
	// through the states that arrived with the matching value. States are stored as tag + "\x01" + state.
	flagPhis := map[*ssa.Phi]bool{}
	for _, b := range fn.Blocks {
		ifi, ok := b.Instrs[len(b.Instrs)-1].(*ssa.If)
		if !ok {
			continue
		}
		cond := ifi.Cond
		for {
			if u, ok := cond.(*ssa.UnOp); ok && u.Op == token.NOT {
				cond = u.X
				continue
			}
			break
		}
		if phi, ok := cond.(*ssa.Phi); ok && isBoolType(phi.Type()) {
			for _, e := range phi.Edges {
				if cst, ok := e.(*ssa.Const); ok && cst.Value != nil {
					flagPhis[phi] = true
				}
			}
		}
	}
	parseTag := func(tag string) map[string]string {
		m := map[string]string{}
		for _, kv := range strings.Split(tag, ",") {
			if i := strings.Index(kv, "="); i > 0 {
				m[kv[:i]] = kv[i+1:]
			}
		}
		return m
	}
	fmtTag := func(m map[string]string) string {
		var ks []string
		for k := range m {
			ks = append(ks, k)
		}
		sort.Strings(ks)
		var parts []string
		for _, k := range ks {
			parts = append(parts, k+"="+m[k])
		}
		return strings.Join(parts, ",")
	}
	// edgeTag: the tag after following the edge from -> to (the flag phis of `to` take the value of their edge)
	edgeTag := func(tag string, from, to *ssa.BasicBlock) string {
		if len(flagPhis) == 0 {
			return tag
		}
		m := parseTag(tag)
		for _, ins := range to.Instrs {
			phi, ok := ins.(*ssa.Phi)
			if !ok {
				break
			}
			if !flagPhis[phi] {
				continue
			}
			for k, pr := range to.Preds {
				if pr != from {
					continue
				}
				e := phi.Edges[k]
				if cst, ok := e.(*ssa.Const); ok && cst.Value != nil {
					m[phi.Name()] = cst.Value.String()
				} else if src, ok := e.(*ssa.Phi); ok && m[src.Name()] != "" {
					m[phi.Name()] = m[src.Name()]
				} else {
					delete(m, phi.Name())
				}
			}
		}
		return fmtTag(m)
	}
	in := map[*ssa.BasicBlock]lexStateSet{}
	in[fn.Blocks[0]] = lexStateSet{}
	for s := range entry {
		in[fn.Blocks[0]]["\x01"+s] = true
	}
	work := []*ssa.BasicBlock{fn.Blocks[0]}
	var curBlock *ssa.BasicBlock
	curTag := ""
	add := func(dst *ssa.BasicBlock, st lexStateSet) {
		// a branch on a tracked flag lets only the matching states through
		if ifi, ok := curBlock.Instrs[len(curBlock.Instrs)-1].(*ssa.If); ok && len(curBlock.Succs) == 2 && curBlock.Succs[0] != curBlock.Succs[1] {
			cond, neg := ifi.Cond, false
			for {
				if u, ok := cond.(*ssa.UnOp); ok && u.Op == token.NOT {
					cond, neg = u.X, !neg
					continue
				}
				break
			}
			if phi, ok := cond.(*ssa.Phi); ok && flagPhis[phi] {
				if v := parseTag(curTag)[phi.Name()]; v != "" {
					val := v == "true"
					if neg {
						val = !val
					}
					if (dst == curBlock.Succs[0]) != val {
						return
					}
				}
			}
		}
		tag := edgeTag(curTag, curBlock, dst)
		cur := in[dst]
		if cur == nil {
			cur = lexStateSet{}
			in[dst] = cur
		}
		changed := false
		for s := range st {
			k := tag + "\x01" + s
			if !cur[k] {
				cur[k] = true
				changed = true
			}
		}
		if changed {
			work = append(work, dst)
		}
	}
	origins := map[ssa.Value]string{}         // match-like call value -> origin description
	helperSums := map[ssa.Value]*lexSummary{} // helper call value -> summary
	type job struct {
		b   *ssa.BasicBlock
		tag string
		st  lexStateSet
	}
	var jobs []job
	for len(work) > 0 || len(jobs) > 0 {
		if len(jobs) == 0 {
			wb := work[len(work)-1]
			work = work[:len(work)-1]
			groups := map[string]lexStateSet{}
			for k := range in[wb] {
				i := strings.Index(k, "\x01")
				tag, base := k[:i], k[i+1:]
				if groups[tag] == nil {
					groups[tag] = lexStateSet{}
				}
				groups[tag][base] = true
			}
			var tags []string
			for t := range groups {
				tags = append(tags, t)
			}
			sort.Strings(tags)
			for _, t := range tags {
				jobs = append(jobs, job{wb, t, groups[t]})
			}
			continue
		}
		jb := jobs[len(jobs)-1]
		jobs = jobs[:len(jobs)-1]
		b := jb.b
		curBlock, curTag = b, jb.tag
		st := lexStateSet{}
		unionStates(st, jb.st)
		for _, ins := range b.Instrs {
			call, ok := ins.(ssa.CallInstruction)
			if !ok {
				continue
			}
			name := methodName(call.Common())
			// unresolved pending states that meet another primitive are treated as Boundary
			settle := func() {
				for s := range st {
					if strings.HasPrefix(s, "P:") {
						delete(st, s)
						st["B:"+strings.TrimPrefix(s, "P:")] = true
					}
					if strings.HasPrefix(s, "H:") {
						delete(st, s)
					}
				}
			}
			switch {
			case name == nil:
			case name == cfg.Peek:
				st = lexStateSet{"D": true}
			case name == cfg.Unread:
				st = lexStateSet{"C": true}
			case name == cfg.Read:
				settle()
				v, _ := ins.(ssa.Value)
				peekIdiom := v != nil && flowsToUnread(v, cfg.Unread, map[ssa.Value]bool{})
				for s := range st {
					if strings.HasPrefix(s, "B:") && !peekIdiom {
						use := "content"
						if v == nil || isDiscarded(v) {
							use = "discarded"
						}
						origin := strings.TrimPrefix(s, "B:")
						key := fmt.Sprintf("lex: readRune (%s) right after a successful %s", use, origin)
						if _, dup := la.found[key]; !dup {
							d := "a delimiter was just consumed by " + origin + " and the next rune is consumed without being examined"
							if use == "discarded" {
								d += ": the first rune of an adjacent lexeme is swallowed"
							} else {
								d += ": it becomes content before the end delimiter was tested"
							}
							la.found[key] = LexFinding{Key: key, Pos: ins.Pos(), Detail: d}
						}
					}
				}
				st = lexStateSet{"D": true}
			case contains(cfg.MatchLike, name):
				v, _ := ins.(ssa.Value)
				o := roleName(cfg, name) + "("
				for i, a := range call.Common().Args[1:] {
					if i > 0 {
						o += ", "
					}
					o += la.argDesc(fn, argDesc, a)
				}
				o += ")"
				if v != nil {
					origins[v] = o
				}
				st = lexStateSet{"P:" + o: true}
			case la.isHelper(name):
				settle()
				var descs []string
				for _, a := range call.Common().Args {
					descs = append(descs, la.argDesc(fn, argDesc, a))
				}
				hs := la.run(name, st, descs)
				v, _ := ins.(ssa.Value)
				all := lexStateSet{}
				unionStates(all, hs.onTrue)
				unionStates(all, hs.onFalse)
				unionStates(all, hs.other)
				if v != nil && isBoolType(v.Type()) {
					helperSums[v] = hs
					id := fmt.Sprintf("H:%p", v)
					st = lexStateSet{id: true}
					// keep the union under a marker so that an unbranched use falls back to it
					for s := range all {
						st["U:"+id+":"+s] = true
					}
				} else {
					st = all
				}
			}
		}
		// expand helper markers when the block does not branch on the helper's result
		expand := func(st lexStateSet, pick func(hs *lexSummary) lexStateSet, hv ssa.Value) lexStateSet {
			out := lexStateSet{}
			for s := range st {
				switch {
				case strings.HasPrefix(s, "H:"):
				case strings.HasPrefix(s, "U:"):
					if hv == nil {
						parts := strings.SplitN(s, ":", 4) // U, H, ptr, state  (state may contain ':')
						if len(parts) == 4 {
							out[parts[3]] = true
						}
					}
				default:
					out[s] = true
				}
			}
			if hv != nil {
				unionStates(out, pick(helperSums[hv]))
			}
			return out
		}
		last := b.Instrs[len(b.Instrs)-1]
		if ret, ok := last.(*ssa.Return); ok {
			fin := expand(st, nil, nil)
			// pending match results at a return stay pending for the caller only as Boundary
			out := lexStateSet{}
			for s := range fin {
				if strings.HasPrefix(s, "P:") {
					out["B:"+strings.TrimPrefix(s, "P:")] = true
				} else {
					out[s] = true
				}
			}
			bucket := sum.other
			if len(ret.Results) >= 1 {
				if cst, ok := ret.Results[0].(*ssa.Const); ok && cst.Value != nil && isBoolType(cst.Type()) {
					if cst.Value.String() == "true" {
						bucket = sum.onTrue
					} else {
						bucket = sum.onFalse
					}
				} else if len(ret.Results) >= 1 {
					// returning the result of a match-like call directly: true => Boundary, false => Decided
					if o, ok := origins[ret.Results[0]]; ok && st["P:"+o] {
						sum.onTrue["B:"+o] = true
						sum.onFalse["D"] = true
						continue
					}
				}
			}
			unionStates(bucket, out)
			continue
		}
		if ifi, ok := last.(*ssa.If); ok {
			cond := ifi.Cond
			neg := false
			for {
				if u, ok := cond.(*ssa.UnOp); ok && u.Op == token.NOT {
					cond, neg = u.X, !neg
					continue
				}
				break
			}
			var o string
			isMatch := false
			if ov, ok := origins[cond]; ok {
				o, isMatch = ov, true
			} else if ex, ok := cond.(*ssa.Extract); ok && ex.Index == 0 {
				if ov, ok := origins[ex.Tuple]; ok {
					o, isMatch = ov, true
				}
			}
			if isMatch && st["P:"+o] {
				t, f := lexStateSet{"B:" + o: true}, lexStateSet{"D": true}
				if neg {
					t, f = f, t
				}
				add(b.Succs[0], t)
				add(b.Succs[1], f)
				continue
			}
			if hs, ok := helperSums[cond]; ok && st[fmt.Sprintf("H:%p", cond)] {
				t := expand(st, func(h *lexSummary) lexStateSet {
					u := lexStateSet{}
					unionStates(u, h.onTrue)
					unionStates(u, h.other)
					return u
				}, cond)
				f := expand(st, func(h *lexSummary) lexStateSet {
					u := lexStateSet{}
					unionStates(u, h.onFalse)
					unionStates(u, h.other)
					return u
				}, cond)
				_ = hs
				if neg {
					t, f = f, t
				}
				add(b.Succs[0], t)
				add(b.Succs[1], f)
				continue
			}
		}
		out := lexStateSet{}
		for s := range expand(st, nil, nil) {
			if strings.HasPrefix(s, "P:") {
				out["B:"+strings.TrimPrefix(s, "P:")] = true
			} else {
				out[s] = true
			}
		}
		for _, s := range b.Succs {
			add(s, out)
		}
	}
	return sum
}

// argDesc describes a delimiter argument; a parameter of a helper is described by what the caller passed.
func (la *lexAnalysis) argDesc(fn *ssa.Function, ctx []string, v ssa.Value) string {
	if prm, ok := v.(*ssa.Parameter); ok && ctx != nil {
		for i, q := range fn.Params {
			if q == prm && i < len(ctx) {
				return ctx[i]
			}
		}
	}
	return lexArgDesc(la.cfg, v)
}

func isBoolType(t types.Type) bool {
	b, ok := t.Underlying().(*types.Basic)
	return ok && b.Kind() == types.Bool
}

// AnalyzeLexer runs the typestate analysis on fn, following calls to helper methods of the same
// receiver that use the lexer primitives (summaries per entry state and returned boolean).
func AnalyzeLexer(fn *ssa.Function, cfg LexConfig) *LexResult {
	res := &LexResult{Blocks: len(fn.Blocks)}
	la := &lexAnalysis{cfg: cfg, found: map[string]LexFinding{}, memo: map[string]*lexSummary{}}
	if fn.Signature.Recv() != nil {
		la.recv = fn.Signature.Recv().Type().String()
	}
	la.run(fn, lexStateSet{"D": true}, nil)
	// static counts over lex and its helpers
	seen := map[*ssa.Function]bool{}
	var count func(f *ssa.Function)
	count = func(f *ssa.Function) {
		if seen[f] {
			return
		}
		seen[f] = true
		for _, b := range f.Blocks {
			for _, ins := range b.Instrs {
				if call, ok := ins.(ssa.CallInstruction); ok {
					n := methodName(call.Common())
					if n == nil {
						continue
					}
					if contains(cfg.MatchLike, n) {
						res.MatchCalls++
					}
					if n == cfg.Read {
						res.Reads++
					}
					if la.isHelper(n) {
						count(n)
					}
				}
			}
		}
	}
	count(fn)
	var keys []string
	for k := range la.found {
		keys = append(keys, k)
	}
	sort.Strings(keys)
	for _, k := range keys {
		res.Findings = append(res.Findings, la.found[k])
	}
	return res
}

// NonProgressCycles finds loops of fn that can iterate without passing a consuming call
// (a read, or the success edge of a match-like call).
func NonProgressCycles(fn *ssa.Function, cfg LexConfig) []*ssa.BasicBlock {
	// blocks that contain a read call are "progress" blocks; edges leaving an If on the success of a
	// match-like call are progress edges.
	progressBlock := map[*ssa.BasicBlock]bool{}
	matchVals := map[ssa.Value]bool{}
	for _, b := range fn.Blocks {
		for _, ins := range b.Instrs {
			if call, ok := ins.(ssa.CallInstruction); ok {
				n := methodName(call.Common())
				if n == cfg.Read {
					progressBlock[b] = true
				}
				if contains(cfg.MatchLike, n) {
					if v, ok := ins.(ssa.Value); ok {
						matchVals[v] = true
					}
				}
			}
		}
	}
	progressEdge := func(from *ssa.BasicBlock, k int) bool {
		ifi, ok := from.Instrs[len(from.Instrs)-1].(*ssa.If)
		if !ok {
			return false
		}
		cond := ifi.Cond
		neg := false
		for {
			if u, ok := cond.(*ssa.UnOp); ok && u.Op == token.NOT {
				cond, neg = u.X, !neg
				continue
			}
			break
		}
		is := matchVals[cond]
		if ex, ok := cond.(*ssa.Extract); ok && ex.Index == 0 && matchVals[ex.Tuple] {
			is = true
		}
		if !is {
			return false
		}
		if neg {
			return k == 1
		}
		return k == 0
	}
	var bad []*ssa.BasicBlock
	for _, h := range fn.Blocks {
		isHeader := false
		for _, p := range h.Preds {
			if h.Dominates(p) {
				isHeader = true
			}
		}
		if !isHeader {
			continue
		}
		// only loops that look at the input (peek / eof / match-like / read) are lexing loops; a
		// counting loop that only pushes runes back is not
		looks := false
		for _, b := range fn.Blocks {
			if !h.Dominates(b) {
				continue
			}
			inLoop := b == h
			for _, p := range h.Preds {
				if h.Dominates(p) && (p == b || reachesWithin(b, p, h)) {
					inLoop = true
				}
			}
			if !inLoop {
				continue
			}
			for _, ins := range b.Instrs {
				if call, ok := ins.(ssa.CallInstruction); ok {
					n := methodName(call.Common())
					if n == cfg.Peek || n == cfg.EOF || n == cfg.Read || contains(cfg.MatchLike, n) {
						looks = true
					}
				}
			}
		}
		if !looks {
			continue
		}
		// can h reach itself through non-progress blocks and edges?
		seen := map[*ssa.BasicBlock]bool{}
		var dfs func(b *ssa.BasicBlock) bool
		dfs = func(b *ssa.BasicBlock) bool {
			if progressBlock[b] {
				return false
			}
			for k, s := range b.Succs {
				if progressEdge(b, k) {
					continue
				}
				if s == h {
					return true
				}
				if !seen[s] && h.Dominates(s) {
					seen[s] = true
					if dfs(s) {
						return true
					}
				}
			}
			return false
		}
		if dfs(h) {
			bad = append(bad, h)
		}
	}
	return bad
}

// reachesWithin: from can reach to without leaving the region dominated by h.
func reachesWithin(from, to, h *ssa.BasicBlock) bool {
	seen := map[*ssa.BasicBlock]bool{}
	work := []*ssa.BasicBlock{from}
	for len(work) > 0 {
		b := work[len(work)-1]
		work = work[:len(work)-1]
		if b == to {
			return true
		}
		if seen[b] {
			continue
		}
		seen[b] = true
		for _, s := range b.Succs {
			if h.Dominates(s) && s != h {
				work = append(work, s)
			}
		}
	}
	return false
}

// roleName gives the role of a match-like function independent of its current name: the first
// configured match-like function is "match", the others are named after their result shape.
func roleName(cfg LexConfig, f *ssa.Function) string {
	for i, m := range cfg.MatchLike {
		if m == f {
			switch i {
			case 0:
				return "match"
			case 1:
				return "singleLineComment"
			case 2:
				return "multiLineComment"
			}
		}
	}
	return f.Name()
}

// lexArgDesc describes a delimiter argument without using source-level names.
func lexArgDesc(cfg LexConfig, v ssa.Value) string {
	switch x := v.(type) {
	case *ssa.Const:
		return x.Value.ExactString()
	case *ssa.Phi:
		return "local variable"
	case *ssa.Extract:
		if call, ok := x.Tuple.(*ssa.Call); ok {
			if f := call.Call.StaticCallee(); f != nil {
				return fmt.Sprintf("result %d of %s", x.Index, roleName(cfg, f))
			}
		}
		return fmt.Sprintf("result %d", x.Index)
	case *ssa.Call:
		if f := x.Call.StaticCallee(); f != nil {
			return "result of a call"
		}
	case *ssa.Parameter:
		return "parameter"
	}
	return "value"
}

// CyclesWithoutEOFTest finds lexing loops of fn that have a cycle on which end of input is never
// tested: blocks ending in a branch on eof() / the ok result of peek (whose one edge leaves the
// loop) cut the cycle; a loop that still has a cycle cannot notice the end of the input.
func CyclesWithoutEOFTest(fn *ssa.Function, cfg LexConfig) []*ssa.BasicBlock {
	isEOFTest := func(v ssa.Value) bool {
		for {
			if u, ok := v.(*ssa.UnOp); ok && u.Op == token.NOT {
				v = u.X
				continue
			}
			break
		}
		switch x := v.(type) {
		case *ssa.Call:
			return x.Call.StaticCallee() == cfg.EOF
		case *ssa.Extract:
			if call, ok := x.Tuple.(*ssa.Call); ok && call.Call.StaticCallee() == cfg.Peek && x.Index == 1 {
				return true
			}
		}
		return false
	}
	var bad []*ssa.BasicBlock
	for _, h := range fn.Blocks {
		isHeader := false
		for _, p := range h.Preds {
			if h.Dominates(p) {
				isHeader = true
			}
		}
		if !isHeader {
			continue
		}
		// only loops that consume input
		consumes := false
		inLoop := map[*ssa.BasicBlock]bool{h: true}
		var work []*ssa.BasicBlock
		for _, p := range h.Preds {
			if h.Dominates(p) {
				work = append(work, p)
			}
		}
		for len(work) > 0 {
			b := work[len(work)-1]
			work = work[:len(work)-1]
			if inLoop[b] {
				continue
			}
			inLoop[b] = true
			for _, p := range b.Preds {
				work = append(work, p)
			}
		}
		for b := range inLoop {
			for _, ins := range b.Instrs {
				if call, ok := ins.(ssa.CallInstruction); ok {
					n := methodName(call.Common())
					if n != nil && (n == cfg.Read || contains(cfg.MatchLike, n)) {
						consumes = true
					}
				}
			}
		}
		if !consumes {
			continue
		}
		cut := func(b *ssa.BasicBlock) bool {
			ifi, ok := b.Instrs[len(b.Instrs)-1].(*ssa.If)
			if !ok || !isEOFTest(ifi.Cond) {
				return false
			}
			// one edge must leave the loop
			return !inLoop[b.Succs[0]] || !inLoop[b.Succs[1]]
		}
		seen := map[*ssa.BasicBlock]bool{}
		var dfs func(b *ssa.BasicBlock) bool
		dfs = func(b *ssa.BasicBlock) bool {
			if cut(b) {
				return false
			}
			for _, s := range b.Succs {
				if !inLoop[s] {
					continue
				}
				if s == h {
					return true
				}
				if !seen[s] {
					seen[s] = true
					if dfs(s) {
						return true
					}
				}
			}
			return false
		}
		if dfs(h) {
			bad = append(bad, h)
		}
	}
	return bad
}
