package eng

// E8c: lexer consumption typestate. A forward may-analysis over the SSA CFG of a
// hand-written lexer built from peek / read / unread / match primitives.
//
//	Decided  – a peek happened since the last delimiter, or a match-like call just failed
//	Boundary – a match-like call just succeeded: a delimiter was consumed and nothing has been
//	           decided about what follows
//	Credit   – an unread is pending
//
// Violation: a consuming read reachable in state Boundary (unless its result can flow to the
// argument of unread: the read-test-unread idiom is a peek).

import (
	"fmt"
	"go/token"
	"go/types"
	"sort"
	"strings"

	"golang.org/x/tools/go/ssa"
)

type LexConfig struct {
	Peek      *ssa.Function
	Read      *ssa.Function
	Unread    *ssa.Function
	EOF       *ssa.Function
	MatchLike []*ssa.Function // methods that look ahead and consume on success; first result is the bool
}

type LexFinding struct {
	Key    string
	Pos    token.Pos
	Detail string
}

type LexResult struct {
	Reads      int
	MatchCalls int
	Findings   []LexFinding
	Blocks     int
}

// methodName: the statically resolved callee (a method of the lexer, or - after the methods were turned into functions
// over a cursor - a function of its package).
func methodName(cc *ssa.CallCommon) *ssa.Function {
	if cc.IsInvoke() {
		return nil
	}
	return cc.StaticCallee()
}

func contains(l []*ssa.Function, s *ssa.Function) bool {
	if s == nil {
		return false
	}
	for _, x := range l {
		if x == s {
			return true
		}
	}
	return false
}

// flowsToUnread: the value returned by a read can reach the argument of an unread call.
func flowsToUnread(v ssa.Value, unread *ssa.Function, seen map[ssa.Value]bool) bool {
	if seen[v] {
		return false
	}
	seen[v] = true
	refs := v.Referrers()
	if refs == nil {
		return false
	}
	for _, r := range *refs {
		switch x := r.(type) {
		case *ssa.Phi:
			if flowsToUnread(x, unread, seen) {
				return true
			}
		case ssa.CallInstruction:
			if methodName(x.Common()) == unread {
				for _, a := range x.Common().Args[1:] {
					if a == v {
						return true
					}
				}
			}
		}
	}
	return false
}

func isDiscarded(v ssa.Value) bool {
	refs := v.Referrers()
	if refs == nil {
		return true
	}
	for _, r := range *refs {
		if _, ok := r.(*ssa.DebugRef); !ok {
			return false
		}
	}
	return true
}

type lexStateSet map[string]bool

func (s lexStateSet) key() string {
	var ks []string
	for k := range s {
		ks = append(ks, k)
	}
	sort.Strings(ks)
	return strings.Join(ks, "|")
}

func unionStates(dst lexStateSet, src lexStateSet) {
	for k := range src {
		dst[k] = true
	}
}

// lexSummary: states at the returns of a helper, split by the constant boolean it returns.
type lexSummary struct {
	onTrue, onFalse, other lexStateSet
	// byConst: states at returns of an integer constant (an "action" enumeration), keyed by the constant
	byConst map[string]lexStateSet
}

type lexAnalysis struct {
	cfg   LexConfig
	recv  string // receiver type of the lexer methods
	found map[string]LexFinding
	memo  map[string]*lexSummary
	depth int
}

func (la *lexAnalysis) isHelper(f *ssa.Function) bool {
	if f == nil || len(f.Blocks) == 0 || f.Signature.Recv() == nil {
		return false
	}
	if f == la.cfg.Peek || f == la.cfg.Read || f == la.cfg.Unread || f == la.cfg.EOF || contains(la.cfg.MatchLike, f) {
		return false
	}
	if f.Signature.Recv().Type().String() != la.recv {
		return false
	}
	// does it (transitively, one level) use lexer primitives?
	for _, b := range f.Blocks {
		for _, ins := range b.Instrs {
			if call, ok := ins.(ssa.CallInstruction); ok {
				n := methodName(call.Common())
				if n != nil && (n == la.cfg.Peek || n == la.cfg.Read || n == la.cfg.Unread || contains(la.cfg.MatchLike, n) || (n != f && la.isHelper(n))) {
					return true
				}
			}
		}
	}
	return false
}

// run analyses fn from the given entry states and returns the states at its returns.
func (la *lexAnalysis) run(fn *ssa.Function, entry lexStateSet, argDesc []string) *lexSummary {
	mk := fmt.Sprintf("%p|%s|%v", fn, entry.key(), argDesc)
	if s, ok := la.memo[mk]; ok {
		return s
	}
	sum := &lexSummary{onTrue: lexStateSet{}, onFalse: lexStateSet{}, other: lexStateSet{}, byConst: map[string]lexStateSet{}}
	la.memo[mk] = sum // recursion guard: a recursive call sees the (growing) summary
	if la.depth > 5 {
		unionStates(sum.other, entry)
		return sum
	}
	la.depth++
	defer func() { la.depth-- }()
	cfg := la.cfg
	// Path sensitivity for boolean flags: a boolean phi with constant edges that is branched on ("closed := false ...
	// closed = true; break ... if closed") is tracked as a tag on the states, so that the branch on the flag only lets
	// through the states that arrived with the matching value. States are stored as tag + "\x01" + state.
	flagPhis := map[*ssa.Phi]bool{}
	for _, b := range fn.Blocks {
		ifi, ok := b.Instrs[len(b.Instrs)-1].(*ssa.If)
		if !ok {
			continue
		}
		cond := ifi.Cond
		for {
			if u, ok := cond.(*ssa.UnOp); ok && u.Op == token.NOT {
				cond = u.X
				continue
			}
			break
		}
		if phi, ok := cond.(*ssa.Phi); ok && isBoolType(phi.Type()) {
			for _, e := range phi.Edges {
				if cst, ok := e.(*ssa.Const); ok && cst.Value != nil {
					flagPhis[phi] = true
				}
			}
		}
		// x == const / x != const with x a phi (an action code merged from several branches)
		if bo, ok := cond.(*ssa.BinOp); ok && (bo.Op == token.EQL || bo.Op == token.NEQ) {
			for _, pair := range [][2]ssa.Value{{bo.X, bo.Y}, {bo.Y, bo.X}} {
				if cst, isC := pair[1].(*ssa.Const); isC && cst.Value != nil {
					if phi, isPhi := pair[0].(*ssa.Phi); isPhi {
						flagPhis[phi] = true
					}
				}
			}
		}
	}
	// a phi of constants that the function returns (a result variable assigned an action code on several paths)
	for _, b := range fn.Blocks {
		ret, ok := b.Instrs[len(b.Instrs)-1].(*ssa.Return)
		if !ok || len(ret.Results) == 0 {
			continue
		}
		if phi, ok := ret.Results[0].(*ssa.Phi); ok {
			for _, e := range phi.Edges {
				if cst, ok := e.(*ssa.Const); ok && cst.Value != nil {
					flagPhis[phi] = true
				}
			}
		}
	}
	parseTag := func(tag string) map[string]string {
		m := map[string]string{}
		for _, kv := range strings.Split(tag, ",") {
			if i := strings.Index(kv, "="); i > 0 {
				m[kv[:i]] = kv[i+1:]
			}
		}
		return m
	}
	fmtTag := func(m map[string]string) string {
		var ks []string
		for k := range m {
			ks = append(ks, k)
		}
		sort.Strings(ks)
		var parts []string
		for _, k := range ks {
			parts = append(parts, k+"="+m[k])
		}
		return strings.Join(parts, ",")
	}
	// edgeTag: the tag after following the edge from -> to (the flag phis of `to` take the value of their edge)
	edgeTag := func(tag string, from, to *ssa.BasicBlock) string {
		if len(flagPhis) == 0 {
			return tag
		}
		m := parseTag(tag)
		for _, ins := range to.Instrs {
			phi, ok := ins.(*ssa.Phi)
			if !ok {
				break
			}
			if !flagPhis[phi] {
				continue
			}
			for k, pr := range to.Preds {
				if pr != from {
					continue
				}
				e := phi.Edges[k]
				if cst, ok := e.(*ssa.Const); ok && cst.Value != nil {
					m[phi.Name()] = cst.Value.String()
				} else if m[e.Name()] != "" {
					m[phi.Name()] = m[e.Name()]
					if _, isCall := e.(*ssa.Call); isCall {
						delete(m, e.Name()) // the split outcome of a match-like call lives on in the flag only
					}
				} else {
					delete(m, phi.Name())
				}
			}
		}
		return fmtTag(m)
	}
	in := map[*ssa.BasicBlock]lexStateSet{}
	in[fn.Blocks[0]] = lexStateSet{}
	for s := range entry {
		in[fn.Blocks[0]]["\x01"+s] = true
	}
	work := []*ssa.BasicBlock{fn.Blocks[0]}
	var curBlock *ssa.BasicBlock
	curTag := ""
	add := func(dst *ssa.BasicBlock, st lexStateSet) {
		// a branch on a tracked flag lets only the matching states through
		if ifi, ok := curBlock.Instrs[len(curBlock.Instrs)-1].(*ssa.If); ok && len(curBlock.Succs) == 2 && curBlock.Succs[0] != curBlock.Succs[1] {
			cond, neg := ifi.Cond, false
			for {
				if u, ok := cond.(*ssa.UnOp); ok && u.Op == token.NOT {
					cond, neg = u.X, !neg
					continue
				}
				break
			}
			if phi, ok := cond.(*ssa.Phi); ok && flagPhis[phi] {
				if v := parseTag(curTag)[phi.Name()]; v != "" {
					val := v == "true"
					if neg {
						val = !val
					}
					if (dst == curBlock.Succs[0]) != val {
						return
					}
				}
			}
			if bo, ok := cond.(*ssa.BinOp); ok && (bo.Op == token.EQL || bo.Op == token.NEQ) {
				for _, pair := range [][2]ssa.Value{{bo.X, bo.Y}, {bo.Y, bo.X}} {
					cst, isC := pair[1].(*ssa.Const)
					if !isC || cst.Value == nil {
						continue
					}
					if v := parseTag(curTag)[pair[0].Name()]; v != "" {
						val := v == cst.Value.String()
						if bo.Op == token.NEQ {
							val = !val
						}
						if neg {
							val = !val
						}
						if (dst == curBlock.Succs[0]) != val {
							return
						}
					}
				}
			}
		}
		tag := edgeTag(curTag, curBlock, dst)
		cur := in[dst]
		if cur == nil {
			cur = lexStateSet{}
			in[dst] = cur
		}
		changed := false
		for s := range st {
			k := tag + "\x01" + s
			if !cur[k] {
				cur[k] = true
				changed = true
			}
		}
		if changed {
			work = append(work, dst)
		}
	}
	origins := map[ssa.Value]string{}         // match-like call value -> origin description
	helperSums := map[ssa.Value]*lexSummary{} // helper call value -> summary
	enumSums := map[ssa.Value]*lexSummary{}   // helper call value -> summary split by the integer constant returned
	type job struct {
		b   *ssa.BasicBlock
		tag string
		st  lexStateSet
	}
	var jobs []job
	for len(work) > 0 || len(jobs) > 0 {
		if len(jobs) == 0 {
			wb := work[len(work)-1]
			work = work[:len(work)-1]
			groups := map[string]lexStateSet{}
			for k := range in[wb] {
				i := strings.Index(k, "\x01")
				tag, base := k[:i], k[i+1:]
				if groups[tag] == nil {
					groups[tag] = lexStateSet{}
				}
				groups[tag][base] = true
			}
			var tags []string
			for t := range groups {
				tags = append(tags, t)
			}
			sort.Strings(tags)
			for _, t := range tags {
				jobs = append(jobs, job{wb, t, groups[t]})
			}
			continue
		}
		jb := jobs[len(jobs)-1]
		jobs = jobs[:len(jobs)-1]
		b := jb.b
		curBlock, curTag = b, jb.tag
		st := lexStateSet{}
		unionStates(st, jb.st)
		var lastEnum ssa.Value
		for _, ins := range b.Instrs {
			call, ok := ins.(ssa.CallInstruction)
			if !ok {
				continue
			}
			name := methodName(call.Common())
			// unresolved pending states that meet another primitive are treated as Boundary
			settle := func() {
				for s := range st {
					if strings.HasPrefix(s, "P:") {
						delete(st, s)
						st["B:"+strings.TrimPrefix(s, "P:")] = true
					}
					if strings.HasPrefix(s, "H:") {
						delete(st, s)
					}
				}
			}
			switch {
			case name == nil:
			case name == cfg.Peek:
				st = lexStateSet{"D": true}
			case name == cfg.Unread:
				st = lexStateSet{"C": true}
			case name == cfg.Read:
				settle()
				v, _ := ins.(ssa.Value)
				peekIdiom := v != nil && flowsToUnread(v, cfg.Unread, map[ssa.Value]bool{})
				for s := range st {
					if strings.HasPrefix(s, "B:") && !peekIdiom {
						use := "content"
						if v == nil || isDiscarded(v) {
							use = "discarded"
						}
						origin := strings.TrimPrefix(s, "B:")
						key := fmt.Sprintf("lex: readRune (%s) right after a successful %s", use, origin)
						if _, dup := la.found[key]; !dup {
							d := "a delimiter was just consumed by " + origin + " and the next rune is consumed without being examined"
							if use == "discarded" {
								d += ": the first rune of an adjacent lexeme is swallowed"
							} else {
								d += ": it becomes content before the end delimiter was tested"
							}
							la.found[key] = LexFinding{Key: key, Pos: ins.Pos(), Detail: d}
						}
					}
				}
				st = lexStateSet{"D": true}
			case contains(cfg.MatchLike, name):
				v, _ := ins.(ssa.Value)
				o := roleName(cfg, name) + "("
				for i, a := range call.Common().Args[1:] {
					if i > 0 {
						o += ", "
					}
					o += la.argDesc(fn, argDesc, a)
				}
				o += ")"
				if v != nil {
					origins[v] = o
				}
				st = lexStateSet{"P:" + o: true}
			case la.isHelper(name):
				settle()
				var descs []string
				for _, a := range call.Common().Args {
					descs = append(descs, la.argDesc(fn, argDesc, a))
				}
				hs := la.run(name, st, descs)
				v, _ := ins.(ssa.Value)
				all := lexStateSet{}
				unionStates(all, hs.onTrue)
				unionStates(all, hs.onFalse)
				unionStates(all, hs.other)
				if v != nil && isBoolType(v.Type()) {
					helperSums[v] = hs
					id := fmt.Sprintf("H:%p", v)
					st = lexStateSet{id: true}
					// keep the union under a marker so that an unbranched use falls back to it
					for s := range all {
						st["U:"+id+":"+s] = true
					}
				} else {
					st = all
					if v != nil && len(hs.byConst) > 0 {
						enumSums[v] = hs
						lastEnum = v
					}
				}
			}
			if name != nil && !(la.isHelper(name) && lastEnum != nil && ins == ssa.Instruction(lastEnum.(ssa.Instruction))) {
				// another lexer primitive after the enumeration-returning helper: its split is no longer exact
				if name == cfg.Peek || name == cfg.Read || name == cfg.Unread || contains(cfg.MatchLike, name) || la.isHelper(name) {
					lastEnum = nil
				}
			}
		}
		// expand helper markers when the block does not branch on the helper's result
		expand := func(st lexStateSet, pick func(hs *lexSummary) lexStateSet, hv ssa.Value) lexStateSet {
			out := lexStateSet{}
			for s := range st {
				switch {
				case strings.HasPrefix(s, "H:"):
				case strings.HasPrefix(s, "U:"):
					if hv == nil {
						parts := strings.SplitN(s, ":", 4) // U, H, ptr, state  (state may contain ':')
						if len(parts) == 4 {
							out[parts[3]] = true
						}
					}
				default:
					out[s] = true
				}
			}
			if hv != nil {
				unionStates(out, pick(helperSums[hv]))
			}
			return out
		}
		last := b.Instrs[len(b.Instrs)-1]
		if ret, ok := last.(*ssa.Return); ok {
			fin := expand(st, nil, nil)
			// pending match results at a return stay pending for the caller only as Boundary
			out := lexStateSet{}
			for s := range fin {
				if strings.HasPrefix(s, "P:") {
					out["B:"+strings.TrimPrefix(s, "P:")] = true
				} else {
					out[s] = true
				}
			}
			bucket := sum.other
			if len(ret.Results) >= 1 {
				if cst, ok := ret.Results[0].(*ssa.Const); ok && cst.Value != nil && !isBoolType(cst.Type()) {
					if bt, isB := cst.Type().Underlying().(*types.Basic); isB && bt.Info()&types.IsInteger != 0 {
						k := cst.Value.String()
						if sum.byConst[k] == nil {
							sum.byConst[k] = lexStateSet{}
						}
						unionStates(sum.byConst[k], out)
						continue
					}
				}
				if phi, ok := ret.Results[0].(*ssa.Phi); ok && flagPhis[phi] {
					// the value of a tracked result variable is known for the states of this job
					if k := parseTag(curTag)[phi.Name()]; k != "" {
						switch {
						case isBoolType(phi.Type()) && k == "true":
							unionStates(sum.onTrue, out)
						case isBoolType(phi.Type()) && k == "false":
							unionStates(sum.onFalse, out)
						default:
							if sum.byConst[k] == nil {
								sum.byConst[k] = lexStateSet{}
							}
							unionStates(sum.byConst[k], out)
						}
						continue
					}
				}
				if hs, ok := enumSums[ret.Results[0]]; ok && lastEnum == ret.Results[0] {
					// the action code of a helper handed on: keep its split
					for k, sts := range hs.byConst {
						if sum.byConst[k] == nil {
							sum.byConst[k] = lexStateSet{}
						}
						unionStates(sum.byConst[k], sts)
					}
					unionStates(sum.other, hs.other)
					continue
				}
				if cst, ok := ret.Results[0].(*ssa.Const); ok && cst.Value != nil && isBoolType(cst.Type()) {
					if cst.Value.String() == "true" {
						bucket = sum.onTrue
					} else {
						bucket = sum.onFalse
					}
				} else if len(ret.Results) >= 1 {
					// returning the result of a match-like call directly: true => Boundary, false => Decided
					if o, ok := origins[ret.Results[0]]; ok && st["P:"+o] {
						sum.onTrue["B:"+o] = true
						sum.onFalse["D"] = true
						continue
					}
				}
			}
			unionStates(bucket, out)
			continue
		}
		if ifi, ok := last.(*ssa.If); ok {
			cond := ifi.Cond
			neg := false
			for {
				if u, ok := cond.(*ssa.UnOp); ok && u.Op == token.NOT {
					cond, neg = u.X, !neg
					continue
				}
				break
			}
			var o string
			isMatch := false
			if ov, ok := origins[cond]; ok {
				o, isMatch = ov, true
			} else if ex, ok := cond.(*ssa.Extract); ok && ex.Index == 0 {
				if ov, ok := origins[ex.Tuple]; ok {
					o, isMatch = ov, true
				}
			}
			if isMatch && st["P:"+o] {
				t, f := lexStateSet{"B:" + o: true}, lexStateSet{"D": true}
				if neg {
					t, f = f, t
				}
				add(b.Succs[0], t)
				add(b.Succs[1], f)
				continue
			}
			if hs, ok := helperSums[cond]; ok && st[fmt.Sprintf("H:%p", cond)] {
				t := expand(st, func(h *lexSummary) lexStateSet {
					u := lexStateSet{}
					unionStates(u, h.onTrue)
					unionStates(u, h.other)
					return u
				}, cond)
				f := expand(st, func(h *lexSummary) lexStateSet {
					u := lexStateSet{}
					unionStates(u, h.onFalse)
					unionStates(u, h.other)
					return u
				}, cond)
				_ = hs
				if neg {
					t, f = f, t
				}
				add(b.Succs[0], t)
				add(b.Succs[1], f)
				continue
			}
		}
		if lastEnum != nil {
			// the block ends right after a helper that returns an action code: pass its exit states on separately per
			// code, tagged with the code, so that a later `switch action` lets through only the matching ones
			hs := enumSums[lastEnum]
			saved := curTag
			var ks []string
			for k := range hs.byConst {
				ks = append(ks, k)
			}
			sort.Strings(ks)
			for _, k := range ks {
				m := parseTag(saved)
				m[lastEnum.Name()] = k
				curTag = fmtTag(m)
				for _, sc := range b.Succs {
					add(sc, hs.byConst[k])
				}
			}
			curTag = saved
			if len(hs.other) > 0 {
				for _, sc := range b.Succs {
					add(sc, hs.other)
				}
			}
			continue
		}
		out := lexStateSet{}
		for s := range expand(st, nil, nil) {
			if strings.HasPrefix(s, "P:") {
				out["B:"+strings.TrimPrefix(s, "P:")] = true
			} else {
				out[s] = true
			}
		}
		for _, s := range b.Succs {
			// the pending result of a match-like call merged into a tracked boolean flag of the successor (the SSA form of
			// `case a && b && i.match(x):` is a phi of false, false and the call): pass the two outcomes on separately, tagged
			// with the value the flag takes, so that the branch on the flag lets through only the matching one
			split := false
			for ps := range st {
				if !strings.HasPrefix(ps, "P:") || len(st) != 1 {
					continue
				}
				o := strings.TrimPrefix(ps, "P:")
				for mv, mo := range origins {
					mi, isInstr := mv.(ssa.Instruction)
					if mo != o || !isInstr || mi.Block() != b {
						continue
					}
					feeds := false
					for _, ins := range s.Instrs {
						phi, ok := ins.(*ssa.Phi)
						if !ok {
							break
						}
						for k, pr := range s.Preds {
							if pr == b && flagPhis[phi] && phi.Edges[k] == mv {
								feeds = true
							}
						}
					}
					if !feeds || split {
						continue
					}
					saved := curTag
					m := parseTag(saved)
					m[mv.Name()] = "true"
					curTag = fmtTag(m)
					add(s, lexStateSet{"B:" + o: true})
					m[mv.Name()] = "false"
					curTag = fmtTag(m)
					add(s, lexStateSet{"D": true})
					curTag = saved
					split = true
				}
			}
			if !split {
				add(s, out)
			}
		}
	}
	return sum
}

// argDesc describes a delimiter argument; a parameter of a helper is described by what the caller passed.
func (la *lexAnalysis) argDesc(fn *ssa.Function, ctx []string, v ssa.Value) string {
	if prm, ok := v.(*ssa.Parameter); ok && ctx != nil {
		for i, q := range fn.Params {
			if q == prm && i < len(ctx) {
				return ctx[i]
			}
		}
	}
	return lexArgDesc(la.cfg, v)
}

func isBoolType(t types.Type) bool {
	b, ok := t.Underlying().(*types.Basic)
	return ok && b.Kind() == types.Bool
}

// AnalyzeLexer runs the typestate analysis on fn, following calls to helper methods of the same
// receiver that use the lexer primitives (summaries per entry state and returned boolean).
func AnalyzeLexer(fn *ssa.Function, cfg LexConfig) *LexResult {
	res := &LexResult{Blocks: len(fn.Blocks)}
	la := &lexAnalysis{cfg: cfg, found: map[string]LexFinding{}, memo: map[string]*lexSummary{}}
	if fn.Signature.Recv() != nil {
		la.recv = fn.Signature.Recv().Type().String()
	}
	la.run(fn, lexStateSet{"D": true}, nil)
	// static counts over lex and its helpers
	seen := map[*ssa.Function]bool{}
	var count func(f *ssa.Function)
	count = func(f *ssa.Function) {
		if seen[f] {
			return
		}
		seen[f] = true
		for _, b := range f.Blocks {
			for _, ins := range b.Instrs {
				if call, ok := ins.(ssa.CallInstruction); ok {
					n := methodName(call.Common())
					if n == nil {
						continue
					}
					if contains(cfg.MatchLike, n) {
						res.MatchCalls++
					}
					if n == cfg.Read {
						res.Reads++
					}
					if la.isHelper(n) {
						count(n)
					}
				}
			}
		}
	}
	count(fn)
	var keys []string
	for k := range la.found {
		keys = append(keys, k)
	}
	sort.Strings(keys)
	for _, k := range keys {
		res.Findings = append(res.Findings, la.found[k])
	}
	return res
}

// progSummary says how a helper of the lexer can return without having consumed input.
type progSummary struct {
	noProg map[string]bool // constant first results that can be returned without progress
	other  bool            // a non-constant first result (or no result) can be returned without progress
}

type progAnalysis struct {
	cfg    LexConfig
	memo   map[*ssa.Function]*progSummary
	active map[*ssa.Function]bool
	touch  map[*ssa.Function]int
}

// helper: an in-package function with a body that is not one of the lexer's primitives.
func (pa *progAnalysis) helper(cc *ssa.CallCommon) *ssa.Function {
	f := cc.StaticCallee()
	cfg := pa.cfg
	if f == nil || len(f.Blocks) == 0 || cfg.Read == nil || f.Pkg != cfg.Read.Pkg {
		return nil
	}
	if f == cfg.Read || f == cfg.Peek || f == cfg.Unread || f == cfg.EOF || contains(cfg.MatchLike, f) {
		return nil
	}
	return f
}

// touchesInput: f (transitively, through helpers) calls a primitive that looks at or consumes the input.
func (pa *progAnalysis) touchesInput(f *ssa.Function) bool {
	if v, ok := pa.touch[f]; ok {
		return v == 1
	}
	pa.touch[f] = 0
	res := false
	for _, b := range f.Blocks {
		for _, ins := range b.Instrs {
			call, ok := ins.(ssa.CallInstruction)
			if !ok {
				continue
			}
			n := methodName(call.Common())
			if n != nil && (n == pa.cfg.Peek || n == pa.cfg.EOF || n == pa.cfg.Read || contains(pa.cfg.MatchLike, n)) {
				res = true
			}
			if h := pa.helper(call.Common()); h != nil && pa.touchesInput(h) {
				res = true
			}
		}
	}
	if res {
		pa.touch[f] = 1
	}
	return res
}

func progEnvKey(env map[ssa.Value]string) string {
	var ks []string
	for v, k := range env {
		ks = append(ks, v.Name()+"="+k)
	}
	sort.Strings(ks)
	return strings.Join(ks, ",")
}

// isMatchResult: v is the (first) result of a match-like call.
func (pa *progAnalysis) isMatchResult(v ssa.Value) bool {
	if call, ok := v.(*ssa.Call); ok && contains(pa.cfg.MatchLike, methodName(&call.Call)) {
		return true
	}
	if ex, ok := v.(*ssa.Extract); ok && ex.Index == 0 {
		if call, ok := ex.Tuple.(*ssa.Call); ok && contains(pa.cfg.MatchLike, methodName(&call.Call)) {
			return true
		}
	}
	return false
}

// search walks fn from start without passing a consuming call (a read, the success edge of a match-like call, a helper
// on the paths where it consumes). It keeps the constant that a helper's result (and each phi merging such results) is
// known to have, and follows a branch on such a value only on the matching side. It reports whether target is reached;
// onRet is called for every return reached.
func (pa *progAnalysis) search(fn *ssa.Function, start *ssa.BasicBlock, startEnv map[ssa.Value]string, target *ssa.BasicBlock, within func(*ssa.BasicBlock) bool, onRet func(*ssa.Return, map[ssa.Value]string)) bool {
	seen := map[string]bool{}
	var visit func(b *ssa.BasicBlock, env map[ssa.Value]string) bool
	visit = func(b *ssa.BasicBlock, env map[ssa.Value]string) bool {
		envs := []map[ssa.Value]string{env}
		for _, ins := range b.Instrs {
			call, ok := ins.(ssa.CallInstruction)
			if !ok {
				continue
			}
			if methodName(call.Common()) == pa.cfg.Read && pa.cfg.Read != nil {
				return false
			}
			h := pa.helper(call.Common())
			if h == nil {
				continue
			}
			sum := pa.summary(h)
			v, _ := ins.(ssa.Value)
			var next []map[ssa.Value]string
			for _, e := range envs {
				var ks []string
				for k := range sum.noProg {
					ks = append(ks, k)
				}
				sort.Strings(ks)
				for _, k := range ks {
					ne := map[ssa.Value]string{}
					for a, c := range e {
						ne[a] = c
					}
					if v != nil {
						ne[v] = k
					}
					next = append(next, ne)
				}
				if sum.other {
					ne := map[ssa.Value]string{}
					for a, c := range e {
						ne[a] = c
					}
					if v != nil {
						delete(ne, v)
					}
					next = append(next, ne)
				}
			}
			envs = next
			if len(envs) == 0 {
				return false
			}
		}
		last := b.Instrs[len(b.Instrs)-1]
		if ret, ok := last.(*ssa.Return); ok {
			if onRet != nil {
				for _, e := range envs {
					onRet(ret, e)
				}
			}
			return false
		}
		for _, e := range envs {
			for k, sc := range b.Succs {
				if ifi, ok := last.(*ssa.If); ok {
					cond, neg := ifi.Cond, false
					for {
						if u, ok := cond.(*ssa.UnOp); ok && u.Op == token.NOT {
							cond, neg = u.X, !neg
							continue
						}
						break
					}
					if pa.isMatchResult(cond) && (k == 0) != neg {
						continue // success edge of a match-like call: progress
					}
					if c, ok := e[cond]; ok && (c == "true" || c == "false") {
						val := c == "true"
						if neg {
							val = !val
						}
						if (k == 0) != val {
							continue
						}
					}
					if bo, ok := cond.(*ssa.BinOp); ok && (bo.Op == token.EQL || bo.Op == token.NEQ) {
						skip := false
						for _, pair := range [][2]ssa.Value{{bo.X, bo.Y}, {bo.Y, bo.X}} {
							cst, isC := pair[1].(*ssa.Const)
							if !isC || cst.Value == nil {
								continue
							}
							if c, ok := e[pair[0]]; ok {
								val := c == cst.Value.String()
								if bo.Op == token.NEQ {
									val = !val
								}
								if neg {
									val = !val
								}
								if (k == 0) != val {
									skip = true
								}
							}
						}
						if skip {
							continue
						}
					}
				}
				if within != nil && !within(sc) {
					continue
				}
				// phi moves along the edge b -> sc
				ne := map[ssa.Value]string{}
				for a, c := range e {
					ne[a] = c
				}
				pi := -1
				for j, p := range sc.Preds {
					if p == b {
						pi = j
					}
				}
				for _, ins := range sc.Instrs {
					phi, ok := ins.(*ssa.Phi)
					if !ok {
						break
					}
					delete(ne, phi)
					if pi >= 0 {
						ev := phi.Edges[pi]
						if cst, ok := ev.(*ssa.Const); ok && cst.Value != nil {
							ne[phi] = cst.Value.String()
						} else if c, ok := e[ev]; ok {
							ne[phi] = c
						}
					}
				}
				if sc == target {
					return true
				}
				key := fmt.Sprintf("%d|%s", sc.Index, progEnvKey(ne))
				if seen[key] {
					continue
				}
				seen[key] = true
				if visit(sc, ne) {
					return true
				}
			}
		}
		return false
	}
	return visit(start, startEnv)
}

// summary: which first results f can return without having consumed input.
func (pa *progAnalysis) summary(f *ssa.Function) *progSummary {
	if s, ok := pa.memo[f]; ok {
		return s
	}
	if pa.active[f] {
		return &progSummary{noProg: map[string]bool{}, other: true} // recursion: assume no progress
	}
	pa.active[f] = true
	sum := &progSummary{noProg: map[string]bool{}}
	pa.search(f, f.Blocks[0], map[ssa.Value]string{}, nil, nil, func(ret *ssa.Return, env map[ssa.Value]string) {
		if len(ret.Results) == 0 {
			sum.other = true
			return
		}
		r := ret.Results[0]
		switch {
		case pa.isMatchResult(r):
			sum.noProg["false"] = true // true means the delimiter was consumed
		default:
			if cst, ok := r.(*ssa.Const); ok && cst.Value != nil {
				sum.noProg[cst.Value.String()] = true
			} else if c, ok := env[r]; ok {
				sum.noProg[c] = true
			} else {
				sum.other = true
			}
		}
	})
	delete(pa.active, f)
	pa.memo[f] = sum
	return sum
}

// boundedRangeLoop: h is the header of a `for range` over an array, slice or string length fixed before the loop
// (index phi from -1, incremented by one, compared with a value computed outside the loop): it ends by itself.
func boundedRangeLoop(h *ssa.BasicBlock) bool {
	ifi, ok := h.Instrs[len(h.Instrs)-1].(*ssa.If)
	if !ok {
		return false
	}
	cmp, ok := ifi.Cond.(*ssa.BinOp)
	if !ok || cmp.Op != token.LSS {
		return false
	}
	inc, ok := cmp.X.(*ssa.BinOp)
	if !ok || inc.Op != token.ADD || inc.Block() != h {
		return false
	}
	phi, ok := inc.X.(*ssa.Phi)
	if !ok || phi.Block() != h || len(phi.Edges) < 2 {
		return false
	}
	if one, ok := inc.Y.(*ssa.Const); !ok || one.Value == nil || one.Value.String() != "1" {
		return false
	}
	nInit, nInc := 0, 0
	for _, e := range phi.Edges {
		if cst, ok := e.(*ssa.Const); ok && cst.Value != nil && cst.Value.String() == "-1" {
			nInit++
		} else if e == ssa.Value(inc) {
			nInc++
		}
	}
	if nInit != 1 || nInc != len(phi.Edges)-1 {
		return false
	}
	// the index is not written elsewhere (it is an SSA value); the bound is fixed before the loop
	switch y := cmp.Y.(type) {
	case *ssa.Const:
		return true
	case ssa.Instruction:
		return y.Block() != h && y.Block().Dominates(h)
	case *ssa.Parameter:
		return true
	}
	return false
}

// NonProgressCycles finds loops of fn that can iterate without passing a consuming call
// (a read, the success edge of a match-like call, or a helper on the paths where it consumes).
func NonProgressCycles(fn *ssa.Function, cfg LexConfig) []*ssa.BasicBlock {
	pa := &progAnalysis{cfg: cfg, memo: map[*ssa.Function]*progSummary{}, active: map[*ssa.Function]bool{}, touch: map[*ssa.Function]int{}}
	var bad []*ssa.BasicBlock
	for _, h := range fn.Blocks {
		isHeader := false
		for _, p := range h.Preds {
			if h.Dominates(p) {
				isHeader = true
			}
		}
		if !isHeader || boundedRangeLoop(h) {
			continue
		}
		// only loops that look at the input (peek / eof / match-like / read, directly or in a helper) are lexing
		// loops; a counting loop that only pushes runes back is not
		looks := false
		for _, b := range fn.Blocks {
			if !h.Dominates(b) {
				continue
			}
			inLoop := b == h
			for _, p := range h.Preds {
				if h.Dominates(p) && (p == b || reachesWithin(b, p, h)) {
					inLoop = true
				}
			}
			if !inLoop {
				continue
			}
			for _, ins := range b.Instrs {
				if call, ok := ins.(ssa.CallInstruction); ok {
					n := methodName(call.Common())
					if n != nil && (n == cfg.Peek || n == cfg.EOF || n == cfg.Read || contains(cfg.MatchLike, n)) {
						looks = true
					}
					if hf := pa.helper(call.Common()); hf != nil && pa.touchesInput(hf) {
						looks = true
					}
				}
			}
		}
		if !looks {
			continue
		}
		// can h reach itself without progress?
		if pa.search(fn, h, map[ssa.Value]string{}, h, func(b *ssa.BasicBlock) bool { return h.Dominates(b) }, nil) {
			bad = append(bad, h)
		}
	}
	return bad
}

// reachesWithin: from can reach to without leaving the region dominated by h.
func reachesWithin(from, to, h *ssa.BasicBlock) bool {
	seen := map[*ssa.BasicBlock]bool{}
	work := []*ssa.BasicBlock{from}
	for len(work) > 0 {
		b := work[len(work)-1]
		work = work[:len(work)-1]
		if b == to {
			return true
		}
		if seen[b] {
			continue
		}
		seen[b] = true
		for _, s := range b.Succs {
			if h.Dominates(s) && s != h {
				work = append(work, s)
			}
		}
	}
	return false
}

// roleName gives the role of a match-like function independent of its current name: the first
// configured match-like function is "match", the others are named after their result shape.
func roleName(cfg LexConfig, f *ssa.Function) string {
	for i, m := range cfg.MatchLike {
		if m == f {
			switch i {
			case 0:
				return "match"
			case 1:
				return "singleLineComment"
			case 2:
				return "multiLineComment"
			}
		}
	}
	return f.Name()
}

// lexArgDesc describes a delimiter argument without using source-level names.
func lexArgDesc(cfg LexConfig, v ssa.Value) string {
	switch x := v.(type) {
	case *ssa.Const:
		return x.Value.ExactString()
	case *ssa.Phi:
		return "local variable"
	case *ssa.Extract:
		if call, ok := x.Tuple.(*ssa.Call); ok {
			if f := call.Call.StaticCallee(); f != nil {
				return fmt.Sprintf("result %d of %s", x.Index, roleName(cfg, f))
			}
		}
		return fmt.Sprintf("result %d", x.Index)
	case *ssa.Call:
		if f := x.Call.StaticCallee(); f != nil {
			return "result of a call"
		}
	case *ssa.Parameter:
		return "parameter"
	}
	return "value"
}

// CyclesWithoutEOFTest finds lexing loops of fn that have a cycle on which end of input is never
// tested: blocks ending in a branch on eof() / the ok result of peek (whose one edge leaves the
// loop) cut the cycle; a loop that still has a cycle cannot notice the end of the input.
func CyclesWithoutEOFTest(fn *ssa.Function, cfg LexConfig) []*ssa.BasicBlock {
	isEOFTest := func(v ssa.Value) bool {
		for {
			if u, ok := v.(*ssa.UnOp); ok && u.Op == token.NOT {
				v = u.X
				continue
			}
			break
		}
		switch x := v.(type) {
		case *ssa.Call:
			return x.Call.StaticCallee() == cfg.EOF
		case *ssa.Extract:
			if call, ok := x.Tuple.(*ssa.Call); ok && call.Call.StaticCallee() == cfg.Peek && x.Index == 1 {
				return true
			}
		}
		return false
	}
	var bad []*ssa.BasicBlock
	for _, h := range fn.Blocks {
		isHeader := false
		for _, p := range h.Preds {
			if h.Dominates(p) {
				isHeader = true
			}
		}
		if !isHeader || boundedRangeLoop(h) {
			continue
		}
		// only loops that consume input
		consumes := false
		inLoop := map[*ssa.BasicBlock]bool{h: true}
		var work []*ssa.BasicBlock
		for _, p := range h.Preds {
			if h.Dominates(p) {
				work = append(work, p)
			}
		}
		for len(work) > 0 {
			b := work[len(work)-1]
			work = work[:len(work)-1]
			if inLoop[b] {
				continue
			}
			inLoop[b] = true
			for _, p := range b.Preds {
				work = append(work, p)
			}
		}
		for b := range inLoop {
			for _, ins := range b.Instrs {
				if call, ok := ins.(ssa.CallInstruction); ok {
					n := methodName(call.Common())
					if n != nil && (n == cfg.Read || contains(cfg.MatchLike, n)) {
						consumes = true
					}
				}
			}
		}
		if !consumes {
			continue
		}
		cut := func(b *ssa.BasicBlock) bool {
			ifi, ok := b.Instrs[len(b.Instrs)-1].(*ssa.If)
			if !ok || !isEOFTest(ifi.Cond) {
				return false
			}
			// one edge must leave the loop
			return !inLoop[b.Succs[0]] || !inLoop[b.Succs[1]]
		}
		seen := map[*ssa.BasicBlock]bool{}
		var dfs func(b *ssa.BasicBlock) bool
		dfs = func(b *ssa.BasicBlock) bool {
			if cut(b) {
				return false
			}
			for _, s := range b.Succs {
				if !inLoop[s] {
					continue
				}
				if s == h {
					return true
				}
				if !seen[s] {
					seen[s] = true
					if dfs(s) {
						return true
					}
				}
			}
			return false
		}
		if dfs(h) {
			bad = append(bad, h)
		}
	}
	return bad
}
