package eng

// E6: lock-set analysis. Forward must-hold dataflow on each function's SSA CFG.

import (
	"sort"
	"strings"

	"golang.org/x/tools/go/ssa"

	"lcv/core"
)

const (
	LockR = 1
	LockW = 2
)

type LockInfo struct {
	Mode int
	Acq  ssa.Instruction // acquisition site; nil when paths with different acquisitions merge
}

type LockState map[string]LockInfo

func (s LockState) clone() LockState {
	n := LockState{}
	for k, v := range s {
		n[k] = v
	}
	return n
}

func (s LockState) String() string {
	var parts []string
	for k, v := range s {
		m := "R"
		if v.Mode == LockW {
			m = "W"
		}
		parts = append(parts, k+":"+m)
	}
	sort.Strings(parts)
	return "{" + strings.Join(parts, ",") + "}"
}

func meetLocks(a, b LockState) LockState {
	n := LockState{}
	for k, v := range a {
		if w, ok := b[k]; ok {
			m := v.Mode
			if w.Mode < m {
				m = w.Mode
			}
			acq := v.Acq
			if w.Acq != v.Acq {
				acq = nil
			}
			n[k] = LockInfo{m, acq}
		}
	}
	return n
}

func eqLocks(a, b LockState) bool {
	if len(a) != len(b) {
		return false
	}
	for k, v := range a {
		if w, ok := b[k]; !ok || w != v {
			return false
		}
	}
	return true
}

func outermost(fn *ssa.Function) *ssa.Function {
	for fn.Parent() != nil {
		fn = fn.Parent()
	}
	return fn
}

// LockKey canonicalises the mutex a Lock/Unlock call operates on.
func LockKey(fn *ssa.Function, v ssa.Value) string {
	switch x := v.(type) {
	case *ssa.FieldAddr:
		return shortTypeName(core.TypeName(x.X.Type())) + "." + core.FieldName(x)
	case *ssa.Alloc:
		return "local " + outermost(fn).Name() + "." + x.Comment
	case *ssa.FreeVar:
		return "local " + outermost(fn).Name() + "." + x.Name()
	case *ssa.UnOp:
		return LockKey(fn, x.X)
	case *ssa.Global:
		return "global " + x.Name()
	case *ssa.Parameter:
		return "param " + x.Name()
	}
	return "?" + v.Name()
}

func shortTypeName(s string) string {
	return strings.TrimPrefix(s, core.RootMod+"/")
}

// MutexOp classifies a call as Lock/RLock/Unlock/RUnlock on a sync mutex.
func MutexOp(fn *ssa.Function, cc *ssa.CallCommon) (op, key string) {
	name := core.StaticCalleeName(cc)
	switch name {
	case "(*sync.Mutex).Lock", "(*sync.RWMutex).Lock":
		return "Lock", LockKey(fn, cc.Args[0])
	case "(*sync.RWMutex).RLock":
		return "RLock", LockKey(fn, cc.Args[0])
	case "(*sync.Mutex).Unlock", "(*sync.RWMutex).Unlock":
		return "Unlock", LockKey(fn, cc.Args[0])
	case "(*sync.RWMutex).RUnlock":
		return "RUnlock", LockKey(fn, cc.Args[0])
	}
	return "", ""
}

// LockFlow computes, for every instruction of fn, the set of locks that are held on
// every path reaching it. Deferred unlocks keep the lock to function exit.
type LockFlow struct {
	Fn     *ssa.Function
	Before map[ssa.Instruction]LockState
	Acqs   int
}

func NewLockFlow(fn *ssa.Function) *LockFlow {
	lf := &LockFlow{Fn: fn, Before: map[ssa.Instruction]LockState{}}
	if len(fn.Blocks) == 0 {
		return lf
	}
	in := map[*ssa.BasicBlock]LockState{}
	out := map[*ssa.BasicBlock]LockState{}
	seen := map[*ssa.BasicBlock]bool{fn.Blocks[0]: true}
	in[fn.Blocks[0]] = LockState{}
	transfer := func(b *ssa.BasicBlock, st LockState, record bool) LockState {
		st = st.clone()
		for _, ins := range b.Instrs {
			if record {
				lf.Before[ins] = st.clone()
			}
			if call, ok := ins.(*ssa.Call); ok {
				op, k := MutexOp(fn, &call.Call)
				switch op {
				case "Lock":
					st[k] = LockInfo{LockW, ins}
				case "RLock":
					st[k] = LockInfo{LockR, ins}
				case "Unlock", "RUnlock":
					delete(st, k)
				}
			}
		}
		return st
	}
	work := []*ssa.BasicBlock{fn.Blocks[0]}
	for len(work) > 0 {
		b := work[0]
		work = work[1:]
		o := transfer(b, in[b], false)
		if old, ok := out[b]; ok && eqLocks(old, o) {
			continue
		}
		out[b] = o
		for _, s := range b.Succs {
			var n LockState
			if !seen[s] {
				n = o.clone()
				seen[s] = true
			} else {
				n = meetLocks(in[s], o)
				if eqLocks(n, in[s]) && out[s] != nil {
					continue
				}
			}
			in[s] = n
			work = append(work, s)
		}
	}
	for _, b := range fn.Blocks {
		if seen[b] {
			transfer(b, in[b], true)
		}
	}
	for _, b := range fn.Blocks {
		for _, ins := range b.Instrs {
			if call, ok := ins.(*ssa.Call); ok {
				if op, _ := MutexOp(fn, &call.Call); op == "Lock" || op == "RLock" {
					lf.Acqs++
				}
			}
		}
	}
	return lf
}

// Held reports the mode in which key is held before ins (0 = not held).
func (lf *LockFlow) Held(ins ssa.Instruction, key string) LockInfo {
	return lf.Before[ins][key]
}

// ConcurrentRegion returns the functions that may run in a spawned goroutine: targets
// of go statements in the given functions and everything they (statically) call
// within the same set.
func ConcurrentRegion(fns []*ssa.Function) map[*ssa.Function]bool {
	inSet := map[*ssa.Function]bool{}
	for _, f := range fns {
		inSet[f] = true
	}
	region := map[*ssa.Function]bool{}
	var work []*ssa.Function
	for _, f := range fns {
		for _, b := range f.Blocks {
			for _, in := range b.Instrs {
				if g, ok := in.(*ssa.Go); ok {
					if t, _ := resolveClosure(g.Call.Value); t != nil && inSet[t] {
						work = append(work, t)
					}
				}
			}
		}
	}
	for len(work) > 0 {
		f := work[len(work)-1]
		work = work[:len(work)-1]
		if region[f] {
			continue
		}
		region[f] = true
		for _, call := range core.CallsIn(f) {
			if t, _ := resolveClosure(call.Common().Value); t != nil && inSet[t] {
				work = append(work, t)
			}
		}
	}
	return region
}

// ResolveCallee exposes closure resolution to rule code.
func ResolveCallee(v ssa.Value) *ssa.Function {
	f, _ := resolveClosure(v)
	return f
}
