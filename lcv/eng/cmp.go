package eng

// Comparator totality by finite relation enumeration (DESIGN.md §3 E2).
// A Less(i, j) method/closure that touches its two elements only through
// comparisons of the same field on both sides is evaluated abstractly for each of
// the 3^k assignments of {<,=,>} to the k compared field pairs.

import (
	"fmt"
	"go/constant"
	"go/token"
	"go/types"
	"sort"
	"strings"

	"golang.org/x/tools/go/ssa"
)

type fieldRead struct {
	side  int // 0 = element i, 1 = element j
	field string
}

type CmpResult struct {
	Fn          *ssa.Function
	ElemType    types.Type
	Compared    []string // fields compared (sorted)
	NotCompared []string // struct fields never compared
	Assignments int
	Bad         int    // assignments violating the strict-total-order requirement
	FirstBad    string // description of the first violating assignment
	Undecided   string // non-empty when the comparator has an unsupported shape
	// FirstKey: field F such that whenever F differs the result is decided by F alone
	// in direction Dir ("desc" = greater first, "asc").
	FirstKey string
	FirstDir string
}

func (r *CmpResult) Total() bool { return r.Undecided == "" && r.Bad == 0 }

type tri int

type undecidedErr string

// idxParams returns the two index parameters (the last two parameters).
func idxParams(fn *ssa.Function) (i, j *ssa.Parameter, ok bool) {
	n := len(fn.Params)
	if n < 2 {
		return nil, nil, false
	}
	return fn.Params[n-2], fn.Params[n-1], true
}

func elemSide(fn *ssa.Function, v ssa.Value) (int, bool) {
	pi, pj, ok := idxParams(fn)
	if !ok {
		return 0, false
	}
	switch x := v.(type) {
	case *ssa.UnOp:
		if x.Op == token.MUL {
			return elemSide(fn, x.X)
		}
	case *ssa.IndexAddr:
		if x.Index == pi {
			return 0, true
		}
		if x.Index == pj {
			return 1, true
		}
	case *ssa.Index:
		if x.Index == pi {
			return 0, true
		}
		if x.Index == pj {
			return 1, true
		}
	}
	return 0, false
}

func readOf(fn *ssa.Function, v ssa.Value) (fieldRead, bool) {
	switch x := v.(type) {
	case *ssa.UnOp:
		if x.Op == token.MUL {
			if fa, ok := x.X.(*ssa.FieldAddr); ok {
				if s, ok := elemSide(fn, fa.X); ok {
					st := fa.X.Type().Underlying().(*types.Pointer).Elem().Underlying().(*types.Struct)
					return fieldRead{s, st.Field(fa.Field).Name()}, true
				}
			}
		}
	case *ssa.Field:
		if s, ok := elemSide(fn, x.X); ok {
			st := x.X.Type().Underlying().(*types.Struct)
			return fieldRead{s, st.Field(x.Field).Name()}, true
		}
	}
	return fieldRead{}, false
}

// exprKey canonicalises an arithmetic expression over the fields of ONE element (i or j): it returns
// the side, a side-independent key such as "(EndTokenIndex-StartTokenIndex)" and the linear
// coefficients of the fields it mentions (nil when the expression is not linear).
func exprKey(fn *ssa.Function, v ssa.Value) (side int, key string, lin map[string]int64, ok bool) {
	if r, isRead := readOf(fn, v); isRead {
		return r.side, r.field, map[string]int64{r.field: 1}, true
	}
	switch x := v.(type) {
	case *ssa.Const:
		if x.Value == nil {
			return -1, "nil", map[string]int64{}, true
		}
		return -1, x.Value.ExactString(), map[string]int64{}, true
	case *ssa.Convert:
		return exprKey(fn, x.X)
	case *ssa.BinOp:
		switch x.Op {
		case token.ADD, token.SUB, token.MUL:
		default:
			return 0, "", nil, false
		}
		s1, k1, l1, ok1 := exprKey(fn, x.X)
		s2, k2, l2, ok2 := exprKey(fn, x.Y)
		if !ok1 || !ok2 {
			return 0, "", nil, false
		}
		sd := s1
		if sd == -1 {
			sd = s2
		} else if s2 != -1 && s2 != s1 {
			return 0, "", nil, false // mixes both elements
		}
		var lin map[string]int64
		if l1 != nil && l2 != nil && (x.Op == token.ADD || x.Op == token.SUB) {
			lin = map[string]int64{}
			for f, c := range l1 {
				lin[f] += c
			}
			for f, c := range l2 {
				if x.Op == token.ADD {
					lin[f] += c
				} else {
					lin[f] -= c
				}
			}
		}
		return sd, "(" + k1 + x.Op.String() + k2 + ")", lin, true
	}
	return 0, "", nil, false
}

func evalTri(op token.Token, r tri) bool {
	switch op {
	case token.EQL:
		return r == 0
	case token.NEQ:
		return r != 0
	case token.LSS:
		return r < 0
	case token.LEQ:
		return r <= 0
	case token.GTR:
		return r > 0
	case token.GEQ:
		return r >= 0
	}
	panic(undecidedErr("unsupported operator " + op.String()))
}

// absDiffEq recognises math.Abs(a.f - b.f) < tiny  (the repo's float equality idiom)
// and returns the two reads.
func absDiffEq(fn *ssa.Function, x *ssa.BinOp) (fieldRead, fieldRead, bool) {
	if x.Op != token.LSS {
		return fieldRead{}, fieldRead{}, false
	}
	call, ok := x.X.(*ssa.Call)
	if !ok {
		return fieldRead{}, fieldRead{}, false
	}
	f := call.Call.StaticCallee()
	if f == nil || f.String() != "math.Abs" {
		return fieldRead{}, fieldRead{}, false
	}
	c, ok := x.Y.(*ssa.Const)
	if !ok || c.Value == nil {
		return fieldRead{}, fieldRead{}, false
	}
	if v, ok := constFloat(c); !ok || v > 1e-300 || v <= 0 {
		return fieldRead{}, fieldRead{}, false
	}
	sub, ok := call.Call.Args[0].(*ssa.BinOp)
	if !ok || sub.Op != token.SUB {
		return fieldRead{}, fieldRead{}, false
	}
	a, ok1 := readOf(fn, sub.X)
	b, ok2 := readOf(fn, sub.Y)
	if !ok1 || !ok2 {
		return fieldRead{}, fieldRead{}, false
	}
	return a, b, true
}

func evalLess(fn *ssa.Function, rel map[string]tri) (res bool, err error) {
	defer func() {
		if r := recover(); r != nil {
			if u, ok := r.(undecidedErr); ok {
				err = fmt.Errorf("%s", string(u))
				return
			}
			panic(r)
		}
	}()
	var boolOf func(v ssa.Value, from *ssa.BasicBlock) bool
	boolOf = func(v ssa.Value, from *ssa.BasicBlock) bool {
		switch x := v.(type) {
		case *ssa.Const:
			return x.Value != nil && x.Value.String() == "true"
		case *ssa.BinOp:
			if a, b, ok := absDiffEq(fn, x); ok {
				if a.field != b.field || a.side == b.side {
					panic(undecidedErr("mixed-field float comparison"))
				}
				return rel[a.field] == 0
			}
			sa, ka, _, ok1 := exprKey(fn, x.X)
			sb, kb, _, ok2 := exprKey(fn, x.Y)
			if !ok1 || !ok2 || ka != kb || sa == sb || sa < 0 || sb < 0 {
				panic(undecidedErr("comparison that is not an expression over element i against the same expression over element j: " + x.String()))
			}
			r := rel[ka]
			if sa == 1 {
				r = -r
			}
			return evalTri(x.Op, r)
		case *ssa.UnOp:
			if x.Op == token.NOT {
				return !boolOf(x.X, from)
			}
		case *ssa.Phi:
			for k, p := range x.Block().Preds {
				if p == from {
					return boolOf(x.Edges[k], nil)
				}
			}
		}
		panic(undecidedErr("unsupported boolean value " + v.String()))
	}
	b := fn.Blocks[0]
	var prev *ssa.BasicBlock
	for steps := 0; steps < 10000; steps++ {
		last := b.Instrs[len(b.Instrs)-1]
		switch x := last.(type) {
		case *ssa.If:
			c := boolOf(x.Cond, prev)
			prev = b
			if c {
				b = b.Succs[0]
			} else {
				b = b.Succs[1]
			}
		case *ssa.Jump:
			prev = b
			b = b.Succs[0]
		case *ssa.Return:
			return boolOf(x.Results[0], prev), nil
		default:
			panic(undecidedErr("unsupported terminator"))
		}
	}
	panic(undecidedErr("no termination"))
}

func constFloat(c *ssa.Const) (float64, bool) {
	if c.Value == nil {
		return 0, false
	}
	switch c.Value.Kind() {
	case constant.Float, constant.Int:
		f, _ := constant.Float64Val(c.Value)
		return f, true
	}
	return 0, false
}

// AnalyzeLess decides totality of a comparator.
func AnalyzeLess(fn *ssa.Function) *CmpResult {
	res := &CmpResult{Fn: fn}
	if fn == nil || len(fn.Blocks) == 0 {
		res.Undecided = "no body"
		return res
	}
	// a function literal that only forwards to a Less method (sort.Slice(x, func(i, j int) bool { return x.Less(i, j) })):
	// the order is that method's
	if len(fn.Blocks) == 1 && len(fn.Params) == 2 {
		var fwd *ssa.Call
		n := 0
		for _, ins := range fn.Blocks[0].Instrs {
			if call, ok := ins.(*ssa.Call); ok {
				n++
				fwd = call
			}
		}
		if n == 1 {
			if g := fwd.Call.StaticCallee(); g != nil && g.Signature.Recv() != nil && len(g.Params) == 3 && len(fwd.Call.Args) == 3 &&
				fwd.Call.Args[1] == ssa.Value(fn.Params[0]) && fwd.Call.Args[2] == ssa.Value(fn.Params[1]) {
				if ret, ok := fn.Blocks[0].Instrs[len(fn.Blocks[0].Instrs)-1].(*ssa.Return); ok && len(ret.Results) == 1 && ret.Results[0] == ssa.Value(fwd) {
					return AnalyzeLess(g)
				}
			}
		}
	}
	// element type: the receiver (method) or first free variable (closure) slice
	var coll types.Type
	if fn.Signature.Recv() != nil && len(fn.Params) == 3 {
		coll = fn.Params[0].Type()
	} else if len(fn.FreeVars) > 0 {
		coll = fn.FreeVars[0].Type()
		if p, ok := coll.Underlying().(*types.Pointer); ok {
			coll = p.Elem()
		}
	}
	if coll != nil {
		if sl, ok := coll.Underlying().(*types.Slice); ok {
			res.ElemType = sl.Elem()
		}
	}
	fields := map[string]bool{}
	keyLin := map[string]map[string]int64{}
	general := false
	for _, b := range fn.Blocks {
		for _, ins := range b.Instrs {
			switch x := ins.(type) {
			case *ssa.BinOp:
				switch x.Op {
				case token.EQL, token.NEQ, token.LSS, token.LEQ, token.GTR, token.GEQ:
					sa, ka, la, ok1 := exprKey(fn, x.X)
					sb, kb, _, ok2 := exprKey(fn, x.Y)
					if ok1 && ok2 && ka == kb && sa != sb && sa >= 0 && sb >= 0 {
						fields[ka] = true
						keyLin[ka] = la
					}
				}
			case *ssa.Call:
				// any call other than math.Abs in the float-equality idiom takes the comparator to the general evaluator
				// (cmp3.go), which follows calls and three-way results
				if f := x.Call.StaticCallee(); f == nil || f.String() != "math.Abs" {
					if _, isBuiltin := x.Call.Value.(*ssa.Builtin); !isBuiltin {
						general = true
					}
				}
			}
		}
	}
	eval := func(rel map[string]tri) (bool, error) { return evalLess(fn, rel) }
	if general {
		keys, err := discoverKeys3(fn)
		if err != nil {
			res.Undecided = err.Error()
		} else {
			fields = map[string]bool{}
			keyLin = map[string]map[string]int64{}
			for k, l := range keys {
				fields[k] = true
				keyLin[k] = l
			}
			eval = func(rel map[string]tri) (bool, error) {
				return evalLess3(fn, rel, map[string]map[string]int64{})
			}
		}
	}
	for f := range fields {
		res.Compared = append(res.Compared, f)
	}
	sort.Strings(res.Compared)
	if res.ElemType != nil {
		et := res.ElemType
		if p, ok := et.Underlying().(*types.Pointer); ok {
			et = p.Elem()
		}
		if st, ok := et.Underlying().(*types.Struct); ok {
			// a field is determined when it is compared directly, or when a compared linear key mentions
			// it and every other field of that key is determined (e.g. End from End-Start and Start)
			determined := map[string]bool{}
			for k := range fields {
				if l := keyLin[k]; l != nil && len(l) == 1 {
					for f := range l {
						determined[f] = true
					}
				}
			}
			for changed := true; changed; {
				changed = false
				for k := range fields {
					l := keyLin[k]
					if l == nil {
						continue
					}
					var unknown []string
					for f, c := range l {
						if c != 0 && !determined[f] {
							unknown = append(unknown, f)
						}
					}
					if len(unknown) == 1 {
						determined[unknown[0]] = true
						changed = true
					}
				}
			}
			for i := 0; i < st.NumFields(); i++ {
				if !determined[st.Field(i).Name()] {
					res.NotCompared = append(res.NotCompared, st.Field(i).Name())
				}
			}
		}
	}
	if res.Undecided != "" {
		return res
	}
	k := len(res.Compared)
	if k == 0 || k > 9 {
		res.Undecided = fmt.Sprintf("%d compared fields (supported: 1..9)", k)
		return res
	}
	n := 1
	for i := 0; i < k; i++ {
		n *= 3
	}
	res.Assignments = n
	type firstStat struct{ okDesc, okAsc bool }
	fs := map[string]*firstStat{}
	for _, f := range res.Compared {
		fs[f] = &firstStat{true, true}
	}
	for m := 0; m < n; m++ {
		rel := map[string]tri{}
		x := m
		alleq := true
		for _, f := range res.Compared {
			rel[f] = tri(x%3 - 1)
			if rel[f] != 0 {
				alleq = false
			}
			x /= 3
		}
		ij, err := eval(rel)
		if err != nil {
			res.Undecided = err.Error()
			return res
		}
		inv := map[string]tri{}
		for f, r := range rel {
			inv[f] = -r
		}
		ji, err := eval(inv)
		if err != nil {
			res.Undecided = err.Error()
			return res
		}
		ok := (alleq && !ij && !ji) || (!alleq && ij != ji)
		if !ok {
			res.Bad++
			if res.FirstBad == "" {
				var parts []string
				for _, f := range res.Compared {
					parts = append(parts, fmt.Sprintf("%s:%s", f, map[tri]string{-1: "<", 0: "=", 1: ">"}[rel[f]]))
				}
				res.FirstBad = fmt.Sprintf("{%s} Less(i,j)=%v Less(j,i)=%v", strings.Join(parts, " "), ij, ji)
			}
		}
		for _, f := range res.Compared {
			if rel[f] > 0 { // i.f > j.f
				if !ij {
					fs[f].okDesc = false
				}
				if ij {
					fs[f].okAsc = false
				}
			} else if rel[f] < 0 {
				if ij {
					fs[f].okDesc = false
				}
				if !ij {
					fs[f].okAsc = false
				}
			}
		}
	}
	for _, f := range res.Compared {
		if fs[f].okDesc {
			res.FirstKey, res.FirstDir = f, "desc"
		} else if fs[f].okAsc {
			res.FirstKey, res.FirstDir = f, "asc"
		}
	}
	return res
}
