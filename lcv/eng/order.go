package eng

// E2: order determinism. Every `range` over a map in the explored call tree is
// enumerated; its body must be order-insensitive, or the slices it fills (order
// taint) must pass a total sort before anything can observe their order.

import (
	"fmt"
	"go/token"
	"go/types"
	"sort"
	"strings"

	"golang.org/x/tools/go/ssa"

	"lcv/core"
)

// MapRange is one `for k, v := range m` over a map.
type MapRange struct {
	Fn            *ssa.Function
	Range         *ssa.Range
	Next          *ssa.Next
	Header        *ssa.BasicBlock
	Body          map[*ssa.BasicBlock]bool
	Key           ssa.Value // may be nil
	Val           ssa.Value // may be nil
	Desc          string    // description of the ranged map (stable)
	Problems      []string  // undecided / order-sensitive constructs
	Tainted       []ssa.Value
	Notes         []string
	appendHelpers []*ssa.Call // calls of append-like helpers that extend a loop-carried slice
}

// SortSite is a sort.Sort/Stable/Slice call.
type SortSite struct {
	Fn        *ssa.Function
	Call      *ssa.Call
	Value     ssa.Value // the slice being sorted
	Less      *ssa.Function
	LessValue *ssa.Function // the function value handed to the sort (before unwrapping wrappers)
	Cmp       *CmpResult
	Total     bool   // comparator total (after the functionally-dependent table)
	Why       string // explanation when not total
}

// TaintStep records how an order-tainted value travels.
type OrderViolation struct {
	Construct string
	Pos       token.Pos
	Detail    string
}

type OrderAnalysis struct {
	P          *core.Prog
	Funcs      []*ssa.Function
	inSet      map[*ssa.Function]bool
	Pure       func(fn *ssa.Function) bool                       // E1 purity oracle
	PureExcept func(fn *ssa.Function, ownedParam int) bool       // purity with one parameter owned by the caller's loop
	Observer   func(fn *ssa.Function) bool                       // trace functions
	FD         func(site *SortSite, field string) (bool, string) // functionally-dependent table
	Ranges     []*MapRange
	Sorts      []*SortSite
	Viol       []OrderViolation
	Undecided  []OrderViolation

	resTaint   map[*ssa.Function]string // function -> reason its results are order-tainted
	paramTaint map[*ssa.Parameter]string
}

func NewOrderAnalysis(p *core.Prog, fns []*ssa.Function) *OrderAnalysis {
	a := &OrderAnalysis{P: p, Funcs: fns, inSet: map[*ssa.Function]bool{}, resTaint: map[*ssa.Function]string{}, paramTaint: map[*ssa.Parameter]string{}}
	for _, f := range fns {
		a.inSet[f] = true
	}
	return a
}

func naturalLoop(h *ssa.BasicBlock) map[*ssa.BasicBlock]bool {
	loop := map[*ssa.BasicBlock]bool{h: true}
	var work []*ssa.BasicBlock
	for _, p := range h.Preds {
		if h.Dominates(p) {
			work = append(work, p)
		}
	}
	for len(work) > 0 {
		b := work[len(work)-1]
		work = work[:len(work)-1]
		if loop[b] {
			continue
		}
		loop[b] = true
		for _, p := range b.Preds {
			if !loop[p] {
				work = append(work, p)
			}
		}
	}
	return loop
}

func describeRanged(v ssa.Value) string {
	switch x := v.(type) {
	case *ssa.UnOp:
		if x.Op == token.MUL {
			if fa, ok := x.X.(*ssa.FieldAddr); ok {
				return "field " + core.FieldName(fa)
			}
			if g, ok := x.X.(*ssa.Global); ok {
				return "global " + g.Name()
			}
			if a, ok := x.X.(*ssa.Alloc); ok {
				return "local " + a.Comment
			}
		}
	case *ssa.MakeMap:
		return "local map " + shortType(x.Type())
	case *ssa.Parameter:
		return "param " + x.Name()
	case *ssa.Phi:
		return "local " + x.Comment
	case *ssa.Call:
		return "result of " + calleeName(&x.Call)
	}
	// a local map variable: find its name through DebugRef if any
	if v.Name() != "" {
		if refs := v.Referrers(); refs != nil {
			for _, r := range *refs {
				if d, ok := r.(*ssa.DebugRef); ok && d.IsAddr == false {
					_ = d
				}
			}
		}
	}
	return "map " + shortType(v.Type())
}

// FindMapRanges enumerates the map ranges of the analysed functions.
func (a *OrderAnalysis) FindMapRanges() {
	for _, fn := range a.Funcs {
		for _, b := range fn.Blocks {
			for _, in := range b.Instrs {
				r, ok := in.(*ssa.Range)
				if !ok {
					continue
				}
				if _, ok := r.X.Type().Underlying().(*types.Map); !ok {
					continue
				}
				mr := &MapRange{Fn: fn, Range: r, Desc: describeRangedNamed(fn, r)}
				for _, ref := range *r.Referrers() {
					if n, ok := ref.(*ssa.Next); ok {
						mr.Next = n
					}
				}
				if mr.Next == nil {
					continue
				}
				mr.Header = mr.Next.Block()
				mr.Body = naturalLoop(mr.Header)
				for _, ref := range *mr.Next.Referrers() {
					if e, ok := ref.(*ssa.Extract); ok {
						switch e.Index {
						case 1:
							mr.Key = e
						case 2:
							mr.Val = e
						}
					}
				}
				a.Ranges = append(a.Ranges, mr)
			}
		}
	}
	sort.Slice(a.Ranges, func(i, j int) bool { return a.Ranges[i].Range.Pos() < a.Ranges[j].Range.Pos() })
}

// describeRangedNamed names the ranged map by the source expression when available.
func describeRangedNamed(fn *ssa.Function, r *ssa.Range) string {
	d := describeRanged(r.X)
	return core.ShortFn(fn) + ": range over " + d
}

func derivesFrom(v ssa.Value, root ssa.Value, depth int) bool {
	if v == root {
		return true
	}
	if depth > 10 || root == nil {
		return false
	}
	switch x := v.(type) {
	case *ssa.UnOp:
		if x.Op == token.MUL {
			return derivesFrom(x.X, root, depth+1)
		}
	case *ssa.FieldAddr:
		return derivesFrom(x.X, root, depth+1)
	case *ssa.Field:
		return derivesFrom(x.X, root, depth+1)
	case *ssa.IndexAddr:
		return derivesFrom(x.X, root, depth+1)
	case *ssa.Index:
		return derivesFrom(x.X, root, depth+1)
	case *ssa.Slice:
		return derivesFrom(x.X, root, depth+1)
	case *ssa.Extract:
		if n, ok := x.Tuple.(*ssa.Next); ok {
			if rg, ok := n.Iter.(*ssa.Range); ok {
				return derivesFrom(rg.X, root, depth+1)
			}
		}
	case *ssa.Phi:
		// slice range loops index with a phi; element is &X[phi]; handled by IndexAddr on X
	}
	return false
}

func sameValue(a, b ssa.Value) bool {
	if a == b {
		return true
	}
	if c, ok := a.(*ssa.Convert); ok {
		return sameValue(c.X, b)
	}
	if c, ok := a.(*ssa.ChangeType); ok {
		return sameValue(c.X, b)
	}
	return false
}

func inLoop(mr *MapRange, in ssa.Instruction) bool { return mr.Body[in.Block()] }

func isInt(t types.Type) bool {
	b, ok := t.Underlying().(*types.Basic)
	return ok && b.Info()&types.IsInteger != 0
}

// classifyLoop decides whether the loop body is order-insensitive and collects
// order-tainted values.
func (a *OrderAnalysis) classifyLoop(mr *MapRange) {
	problem := func(in ssa.Instruction, f string, args ...interface{}) {
		mr.Problems = append(mr.Problems, fmt.Sprintf("%s: %s", a.P.Pos(in.Pos()), fmt.Sprintf(f, args...)))
	}
	// loop-carried values: phis in the header
	for _, in := range mr.Header.Instrs {
		phi, ok := in.(*ssa.Phi)
		if !ok {
			continue
		}
		kind, detail := a.loopCarried(mr, phi)
		switch kind {
		case "ok":
			mr.Notes = append(mr.Notes, "loop-carried "+phi.Comment+": "+detail)
		case "append":
			mr.Tainted = append(mr.Tainted, phi)
			mr.Notes = append(mr.Notes, "slice "+phi.Comment+" is filled in map-iteration order (order-tainted)")
		default:
			problem(phi, "loop-carried variable %q: %s", phi.Comment, detail)
		}
	}
	var retConsts []string
	for b := range mr.Body {
		for _, in := range b.Instrs {
			switch x := in.(type) {
			case *ssa.Store:
				if ok, why := a.storeOK(mr, x); !ok {
					problem(x, "store %s: %s", describeAddr(x.Addr), why)
				}
			case *ssa.MapUpdate:
				if mr.Key != nil && sameValue(x.Key, mr.Key) {
					continue
				}
				if _, isConst := x.Value.(*ssa.Const); isConst {
					continue // idempotent constant store
				}
				if al := allocInLoop(mr, x.Map); al {
					continue
				}
				problem(x, "map update whose key is not the loop key and whose value is not constant")
			case *ssa.Send:
				problem(x, "channel send inside a map-range loop")
			case *ssa.Go:
				problem(x, "goroutine spawned inside a map-range loop")
			case *ssa.Return:
				var parts []string
				allConst := true
				for _, r := range x.Results {
					c, ok := r.(*ssa.Const)
					if !ok {
						allConst = false
						break
					}
					parts = append(parts, core.AP(c))
				}
				if !allConst {
					problem(x, "return of a non-constant value from inside a map-range loop (which iteration returns depends on the order)")
				} else {
					retConsts = append(retConsts, strings.Join(parts, ","))
				}
			case ssa.CallInstruction:
				a.callOK(mr, x, problem)
			}
		}
	}
	for i := 1; i < len(retConsts); i++ {
		if retConsts[i] != retConsts[0] {
			mr.Problems = append(mr.Problems, "returns different constants from inside the loop")
			break
		}
	}
}

func allocInLoop(mr *MapRange, v ssa.Value) bool {
	switch x := v.(type) {
	case *ssa.Alloc:
		return mr.Body[x.Block()]
	case *ssa.MakeMap:
		return mr.Body[x.Block()]
	case *ssa.MakeSlice:
		return mr.Body[x.Block()]
	case *ssa.FieldAddr:
		return allocInLoop(mr, x.X)
	case *ssa.IndexAddr:
		return allocInLoop(mr, x.X)
	case *ssa.UnOp:
		return x.Op == token.MUL && allocInLoop(mr, x.X)
	case *ssa.Slice:
		return allocInLoop(mr, x.X)
	case *ssa.Call:
		// value produced inside the loop by a call (fresh per iteration if the callee is pure)
		return mr.Body[x.Block()]
	case *ssa.Phi:
		if !mr.Body[x.Block()] || x.Block() == mr.Header {
			return false
		}
		for _, e := range x.Edges {
			if _, isConst := e.(*ssa.Const); isConst {
				continue
			}
			if !allocInLoop(mr, e) {
				return false
			}
		}
		return true
	}
	return false
}

func (a *OrderAnalysis) storeOK(mr *MapRange, st *ssa.Store) (bool, string) {
	addr := st.Addr
	if allocInLoop(mr, addr) {
		return true, ""
	}
	switch x := addr.(type) {
	case *ssa.IndexAddr:
		if mr.Key != nil && sameValue(x.Index, mr.Key) {
			return true, ""
		}
	case *ssa.FieldAddr:
		if mr.Val != nil && derivesFrom(x.X, mr.Val, 0) {
			return true, ""
		}
		if mr.Key != nil && derivesFrom(x.X, mr.Key, 0) {
			return true, ""
		}
		// a field of the element that the loop key selects (s[key].f = ...): distinct keys, distinct elements
		if ia, ok := x.X.(*ssa.IndexAddr); ok && mr.Key != nil && sameValue(ia.Index, mr.Key) {
			return true, ""
		}
	case *ssa.Alloc:
		// address-taken local outside the loop
		if c, ok := st.Val.(*ssa.Const); ok {
			_ = c
			return true, ""
		}
		if bo, ok := st.Val.(*ssa.BinOp); ok && (bo.Op == token.ADD || bo.Op == token.SUB) && isInt(bo.Type()) {
			if ld, ok := bo.X.(*ssa.UnOp); ok && ld.Op == token.MUL && ld.X == x {
				return true, ""
			}
		}
		if call, ok := st.Val.(*ssa.Call); ok {
			if b, ok := call.Call.Value.(*ssa.Builtin); ok && b.Name() == "append" {
				mr.Tainted = append(mr.Tainted, x)
				return true, ""
			}
		}
		return false, "store to a local variable that lives across iterations"
	}
	if mr.Val != nil && derivesFrom(addr, mr.Val, 0) {
		return true, ""
	}
	return false, "target is neither iteration-local, nor indexed by the loop key, nor part of the loop's own element"
}

// loopCarried classifies a header phi.
func (a *OrderAnalysis) loopCarried(mr *MapRange, phi *ssa.Phi) (string, string) {
	web := map[ssa.Value]bool{phi: true}
	var updates []ssa.Value
	var visit func(v ssa.Value)
	seen := map[ssa.Value]bool{}
	visit = func(v ssa.Value) {
		if seen[v] {
			return
		}
		seen[v] = true
		if v == phi {
			return
		}
		if p, ok := v.(*ssa.Phi); ok && mr.Body[p.Block()] {
			web[p] = true
			for _, e := range p.Edges {
				visit(e)
			}
			return
		}
		updates = append(updates, v)
	}
	for i, e := range phi.Edges {
		if mr.Body[phi.Block().Preds[i]] { // back edge
			visit(e)
		}
	}
	if len(updates) == 0 {
		return "ok", "unchanged"
	}
	// resolve updates that are themselves built from web values
	kind := ""
	var consts []string
	for len(updates) > 0 {
		u := updates[0]
		updates = updates[1:]
		switch x := u.(type) {
		case *ssa.Const:
			consts = append(consts, core.AP(x))
			if kind == "" || kind == "const" {
				kind = "const"
			} else {
				return "bad", "mixes constant assignment with other updates"
			}
		case *ssa.BinOp:
			if (x.Op == token.ADD || x.Op == token.SUB) && isInt(x.Type()) {
				inWebX := web[x.X] || isWebDerived(x.X, web, phi)
				inWebY := web[x.Y]
				if inWebX && !inWebY {
					web[x] = true
					if kind == "" || kind == "accum" {
						kind = "accum"
						continue
					}
					return "bad", "mixes accumulation with other updates"
				}
			}
			if x.Op == token.ADD || x.Op == token.SUB || x.Op == token.MUL || x.Op == token.QUO {
				if b, ok := x.Type().Underlying().(*types.Basic); ok && b.Info()&types.IsFloat != 0 {
					return "bad", "floating-point accumulation is not associative: the result depends on iteration order"
				}
			}
			return "bad", "updated by " + x.String()
		case *ssa.Call:
			if b, ok := x.Call.Value.(*ssa.Builtin); ok && b.Name() == "append" && (web[x.Call.Args[0]] || x.Call.Args[0] == phi) {
				web[x] = true
				if kind == "" || kind == "append" {
					kind = "append"
					continue
				}
				return "bad", "mixes append with other updates"
			}
			// a helper that returns its slice argument with elements appended (append-like)
			if f := x.Call.StaticCallee(); f != nil {
				if k, ok := appendLikeParam(f); ok && k < len(x.Call.Args) && (web[x.Call.Args[k]] || x.Call.Args[k] == phi) {
					web[x] = true
					mr.appendHelpers = append(mr.appendHelpers, x)
					if kind == "" || kind == "append" {
						kind = "append"
						continue
					}
					return "bad", "mixes append with other updates"
				}
			}
			return "bad", "updated by the result of " + calleeName(&x.Call)
		default:
			return "bad", "updated by " + u.String()
		}
	}
	switch kind {
	case "const":
		for _, c := range consts {
			if c != consts[0] {
				return "bad", "assigned different constants in different iterations"
			}
		}
		return "ok", "idempotent constant assignment"
	case "accum":
		return "ok", "commutative integer accumulation"
	case "append":
		return "append", ""
	}
	return "bad", "unclassified"
}

func isWebDerived(v ssa.Value, web map[ssa.Value]bool, phi *ssa.Phi) bool {
	return v == phi || web[v]
}

func (a *OrderAnalysis) callOK(mr *MapRange, call ssa.CallInstruction, problem func(ssa.Instruction, string, ...interface{})) {
	cc := call.Common()
	if b, ok := cc.Value.(*ssa.Builtin); ok {
		switch b.Name() {
		case "append", "len", "cap", "min", "max", "print", "println", "panic", "recover":
		case "copy":
			if !allocInLoop(mr, cc.Args[0]) {
				problem(call, "copy into memory that lives across iterations")
			}
		case "delete":
			if !(mr.Key != nil && sameValue(cc.Args[1], mr.Key)) {
				problem(call, "delete with a key other than the loop key")
			}
		default:
			problem(call, "builtin %s", b.Name())
		}
		return
	}
	if cc.IsInvoke() {
		name := "(" + types.TypeString(cc.Value.Type(), nil) + ")." + cc.Method.Name()
		if s, ok := summarize(name); ok && (s.readsOnly || s.io) {
			return
		}
		if allocInLoop(mr, cc.Value) {
			return
		}
		problem(call, "interface call %s on a value that lives across iterations", name)
		return
	}
	callee, _ := resolveClosure(cc.Value)
	if callee == nil {
		problem(call, "call through an unresolved function value")
		return
	}
	if a.Observer != nil && a.Observer(callee) {
		return
	}
	if len(callee.Blocks) > 0 && a.inSet[callee] || (len(callee.Blocks) > 0 && core.InRepo(callee)) {
		if a.Pure != nil && a.Pure(callee) {
			return
		}
		// an append-like helper extending the loop's own accumulator: pure apart from that append
		for _, h := range mr.appendHelpers {
			if ssa.Instruction(h) == call.(ssa.Instruction) {
				if k, ok := appendLikeParam(callee); ok && a.PureExcept != nil && a.PureExcept(callee, k) {
					return
				}
			}
		}
		problem(call, "call of %s, which writes memory it does not own (effect order depends on iteration order)", core.ShortFn(callee))
		return
	}
	name := extName(callee)
	s, ok := summarize(name)
	if !ok {
		problem(call, "call of unsummarised external function %s", name)
		return
	}
	if s.readsOnly || s.io || s.nondet {
		return
	}
	var args []ssa.Value
	args = append(args, cc.Args...)
	for _, w := range s.writes {
		if w < len(args) && !allocInLoop(mr, args[w]) {
			problem(call, "%s writes an argument that lives across iterations", name)
		}
	}
}

// ---------------------------------------------------------------------------
// Sort sites.

func (a *OrderAnalysis) FindSorts() {
	for _, fn := range a.Funcs {
		for _, b := range fn.Blocks {
			for _, in := range b.Instrs {
				call, ok := in.(*ssa.Call)
				if !ok {
					continue
				}
				name := core.StaticCalleeName(&call.Call)
				switch name {
				case "sort.Sort", "sort.Stable":
					s := &SortSite{Fn: fn, Call: call}
					if mi, ok := call.Call.Args[0].(*ssa.MakeInterface); ok {
						s.Value = mi.X
						var pkg *types.Package
						if n, ok := deref(mi.X.Type()).(*types.Named); ok {
							pkg = n.Obj().Pkg()
						}
						s.Less = a.P.SSA.LookupMethod(mi.X.Type(), pkg, "Less")
					}
					a.Sorts = append(a.Sorts, s)
				case "sort.Slice", "sort.SliceStable":
					s := &SortSite{Fn: fn, Call: call}
					if mi, ok := call.Call.Args[0].(*ssa.MakeInterface); ok {
						s.Value = mi.X
					}
					s.Less, _ = resolveClosure(call.Call.Args[1])
					s.LessValue = s.Less
					s.Less = unwrapWrapper(s.Less)
					a.Sorts = append(a.Sorts, s)
				case "sort.Strings", "sort.Ints", "sort.Float64s":
					s := &SortSite{Fn: fn, Call: call, Value: call.Call.Args[0], Total: true}
					a.Sorts = append(a.Sorts, s)
				}
			}
		}
	}
	for _, s := range a.Sorts {
		if s.Total {
			continue
		}
		if s.Less == nil {
			s.Why = "cannot resolve the comparator"
			continue
		}
		s.Cmp = AnalyzeLess(s.Less)
		if s.Cmp.Undecided != "" {
			s.Why = "comparator shape not supported: " + s.Cmp.Undecided
			continue
		}
		if s.Cmp.Bad > 0 {
			s.Why = "comparator is not a strict total order on the compared fields: " + s.Cmp.FirstBad
			continue
		}
		var missing []string
		for _, f := range s.Cmp.NotCompared {
			if a.FD != nil {
				if ok, _ := a.FD(s, f); ok {
					continue
				}
			}
			missing = append(missing, f)
		}
		if len(missing) > 0 {
			s.Why = "elements that differ only in " + strings.Join(missing, ", ") + " compare equal, so their relative order is whatever the map iteration produced"
			continue
		}
		s.Total = true
	}
}

// ---------------------------------------------------------------------------
// Taint propagation.

func instrBefore(a, b ssa.Instruction) bool {
	if a.Block() != b.Block() {
		return a.Block().Dominates(b.Block())
	}
	for _, in := range a.Block().Instrs {
		if in == a {
			return true
		}
		if in == b {
			return false
		}
	}
	return false
}

// sanitizersOf returns the total-sort calls applied to v (or an alias of it).
func (a *OrderAnalysis) sanitizersOf(family map[ssa.Value]bool) (total []*SortSite, nonTotal []*SortSite) {
	for _, s := range a.Sorts {
		if s.Value != nil && family[s.Value] {
			if s.Total {
				total = append(total, s)
			} else {
				nonTotal = append(nonTotal, s)
			}
		}
	}
	return
}

// propagate runs the intra- and inter-procedural taint propagation to a fixed point
// and reports tainted values that reach the root's results.
func (a *OrderAnalysis) Propagate(root *ssa.Function) {
	type seed struct {
		fn     *ssa.Function
		v      ssa.Value
		origin string
		loop   *MapRange
	}
	var seeds []seed
	for _, mr := range a.Ranges {
		for _, v := range mr.Tainted {
			seeds = append(seeds, seed{mr.Fn, v, mr.Desc, mr})
		}
	}
	reported := map[string]bool{}
	changed := true
	rounds := 0
	for changed && rounds < 50 {
		changed = false
		rounds++
		cur := seeds
		// add call results of tainted functions and tainted params
		for _, fn := range a.Funcs {
			for _, b := range fn.Blocks {
				for _, in := range b.Instrs {
					if call, ok := in.(*ssa.Call); ok {
						if cal := call.Call.StaticCallee(); cal != nil {
							if why, ok := a.resTaint[cal]; ok {
								cur = append(cur, seed{fn, call, why + " -> result of " + core.ShortFn(cal), nil})
							}
						}
					}
				}
			}
			for _, prm := range fn.Params {
				if why, ok := a.paramTaint[prm]; ok {
					cur = append(cur, seed{fn, prm, why + " -> parameter " + prm.Name() + " of " + core.ShortFn(fn), nil})
				}
			}
		}
		for _, sd := range cur {
			fam := map[ssa.Value]bool{sd.v: true}
			// alias family: phis / slices / extracts derived from the value, and for alloc cells their loads
			grow := true
			for grow {
				grow = false
				for v := range fam {
					refs := v.Referrers()
					if refs == nil {
						continue
					}
					for _, r := range *refs {
						switch x := r.(type) {
						case *ssa.Phi:
							if !fam[x] {
								fam[x] = true
								grow = true
							}
						case *ssa.Slice:
							if !fam[x] {
								fam[x] = true
								grow = true
							}
						case *ssa.Extract:
							if !fam[x] {
								fam[x] = true
								grow = true
							}
						case *ssa.UnOp:
							if x.Op == token.MUL {
								if _, isAlloc := v.(*ssa.Alloc); isAlloc && !fam[x] {
									fam[x] = true
									grow = true
								}
							}
						case *ssa.ChangeType:
							if !fam[x] {
								fam[x] = true
								grow = true
							}
						case *ssa.Call:
							if b, ok := x.Call.Value.(*ssa.Builtin); ok && b.Name() == "append" && x.Call.Args[0] == v && !fam[x] {
								fam[x] = true
								grow = true
							}
						}
					}
				}
			}
			total, nonTotal := a.sanitizersOf(fam)
			sanitized := func(u ssa.Instruction) bool {
				for _, s := range total {
					if s.Call != u && instrBefore(s.Call, u) {
						return true
					}
				}
				return false
			}
			for v := range fam {
				refs := v.Referrers()
				if refs == nil {
					continue
				}
				for _, u := range *refs {
					if sd.loop != nil && inLoop(sd.loop, u) {
						continue // inside the producing loop
					}
					switch x := u.(type) {
					case *ssa.DebugRef:
						continue
					case *ssa.Phi, *ssa.Slice, *ssa.Extract, *ssa.ChangeType:
						continue // family member
					case *ssa.UnOp:
						if _, isAlloc := v.(*ssa.Alloc); isAlloc && x.Op == token.MUL {
							continue // load of the tainted cell: family member, its own uses are checked
						}
					case *ssa.MakeClosure:
						// the comparator closure of a sort on this family reads it by design
						isCmp := false
						for _, s := range a.Sorts {
							if s.Less != nil && (x.Fn == ssa.Value(s.Less) || (s.LessValue != nil && x.Fn == ssa.Value(s.LessValue))) && s.Value != nil && fam[s.Value] {
								isCmp = true
							}
						}
						if isCmp {
							continue
						}
					case *ssa.MakeInterface:
						// argument of sort.Sort etc.
						isSort := false
						for _, s := range a.Sorts {
							if len(s.Call.Call.Args) > 0 && s.Call.Call.Args[0] == x {
								isSort = true
							}
						}
						if isSort {
							continue
						}
					case *ssa.Call:
						if b, ok := x.Call.Value.(*ssa.Builtin); ok {
							if b.Name() == "len" || b.Name() == "cap" {
								continue
							}
							if b.Name() == "append" && x.Call.Args[0] == v {
								continue // family
							}
						}
						isSort := false
						for _, s := range a.Sorts {
							if s.Call == x {
								isSort = true
							}
						}
						if isSort {
							continue
						}
					case *ssa.Store:
						if x.Addr == v {
							continue // store into the tainted cell itself
						}
					}
					if sanitized(u) {
						continue
					}
					// unsanitised use
					why := sd.origin
					if len(nonTotal) > 0 {
						why += fmt.Sprintf(" -> sorted by %s at %s, but %s", core.ShortFn(nonTotal[0].Less), a.P.Pos(nonTotal[0].Call.Pos()), nonTotal[0].Why)
					} else if len(total) == 0 {
						why += " -> never sorted"
					} else {
						why += " -> used before it is sorted"
					}
					switch x := u.(type) {
					case *ssa.Return:
						if _, ok := a.resTaint[sd.fn]; !ok {
							a.resTaint[sd.fn] = why + " -> returned by " + core.ShortFn(sd.fn)
							changed = true
						}
					case *ssa.Call:
						cal := x.Call.StaticCallee()
						if cal != nil && a.inSet[cal] {
							for i, arg := range x.Call.Args {
								if fam[arg] && i < len(cal.Params) {
									if _, ok := a.paramTaint[cal.Params[i]]; !ok {
										a.paramTaint[cal.Params[i]] = why
										changed = true
									}
								}
							}
						} else {
							if _, ok := a.resTaint[sd.fn]; !ok {
								a.resTaint[sd.fn] = why + " -> passed to " + calleeName(&x.Call) + " in " + core.ShortFn(sd.fn)
								changed = true
							}
						}
					default:
						if _, ok := a.resTaint[sd.fn]; !ok {
							a.resTaint[sd.fn] = why + " -> order observed by " + strings.TrimSpace(u.String()) + " at " + a.P.Pos(u.Pos()) + " in " + core.ShortFn(sd.fn)
							changed = true
						}
					}
				}
			}
		}
	}
	// report: functions on the path to the root
	if why, ok := a.resTaint[root]; ok && !reported[why] {
		reported[why] = true
		a.Viol = append(a.Viol, OrderViolation{Construct: "order-tainted value reaches the result of " + core.ShortFn(root), Pos: root.Pos(), Detail: why})
	}
}

// ResultTainted reports why a function's results are order-tainted, if they are.
func (a *OrderAnalysis) ResultTainted(fn *ssa.Function) (string, bool) {
	w, ok := a.resTaint[fn]
	return w, ok
}

// Run performs the whole analysis.
func (a *OrderAnalysis) Run(root *ssa.Function) {
	a.FindMapRanges()
	a.FindSorts()
	for _, mr := range a.Ranges {
		a.classifyLoop(mr)
	}
	a.Propagate(root)
}

// unwrapWrapper sees through synthetic wrappers (bound method closures, thunks): a function whose body
// is a single call of another function with its own parameters/free variables.
func unwrapWrapper(fn *ssa.Function) *ssa.Function {
	for i := 0; i < 3 && fn != nil && fn.Synthetic != ""; i++ {
		var target *ssa.Function
		n := 0
		for _, b := range fn.Blocks {
			for _, in := range b.Instrs {
				if call, ok := in.(*ssa.Call); ok {
					n++
					target = call.Call.StaticCallee()
				}
			}
		}
		if n != 1 || target == nil {
			return fn
		}
		fn = target
	}
	return fn
}

// appendLikeParam: every value fn returns is its slice parameter k, possibly extended by appends.
func appendLikeParam(fn *ssa.Function) (int, bool) {
	if len(fn.Blocks) == 0 || fn.Signature.Results().Len() != 1 {
		return 0, false
	}
	for k, prm := range fn.Params {
		if _, ok := prm.Type().Underlying().(*types.Slice); !ok {
			continue
		}
		fam := map[ssa.Value]bool{}
		var walk func(v ssa.Value) bool // true iff v derives only from prm via phi/append
		seen := map[ssa.Value]bool{}
		walk = func(v ssa.Value) bool {
			if v == ssa.Value(prm) {
				return true
			}
			if seen[v] {
				return true
			}
			seen[v] = true
			switch x := v.(type) {
			case *ssa.Phi:
				for _, e := range x.Edges {
					if !walk(e) {
						return false
					}
				}
				fam[x] = true
				return true
			case *ssa.Call:
				if b, ok := x.Call.Value.(*ssa.Builtin); ok && b.Name() == "append" {
					return walk(x.Call.Args[0])
				}
			}
			return false
		}
		all := true
		n := 0
		for _, b := range fn.Blocks {
			if ret, ok := b.Instrs[len(b.Instrs)-1].(*ssa.Return); ok {
				n++
				if !walk(ret.Results[0]) {
					all = false
				}
			}
		}
		if all && n > 0 {
			return k, true
		}
	}
	return 0, false
}
