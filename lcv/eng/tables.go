package eng

// E7: relations read from the code (not executed): switch statements over named
// constants with constant results.

import (
	"fmt"
	"go/ast"
	"go/constant"
	"go/token"
	"go/types"

	"golang.org/x/tools/go/packages"
)

// SwitchRow is one case clause of a table function.
type SwitchRow struct {
	Keys    []string // names of the constants in the case list
	KeyVals []constant.Value
	// Result: the constant returned by the clause (string literal or named constant)
	Result    string
	ResultObj types.Object // when the result is a named constant
	// Except: the clause returns Result unless the second switch variable equals one of these
	// named constants (`if lang != X { return ... }`), in which case control falls out of the switch.
	Except []string
	Pos    token.Pos
}

// SwitchTable is a function of the form
//
//	switch <expr> { case A, B: return X ... } return D
type SwitchTable struct {
	Func    *ast.FuncDecl
	Tag     ast.Expr
	Rows    []SwitchRow
	Default string // value returned after the switch ("" literal or named constant)
	DefObj  types.Object
}

// ReadSwitchTable reads the table function `name` (method or function) of the package.
func ReadSwitchTable(pkg *packages.Package, name string, fd *ast.FuncDecl) (*SwitchTable, error) {
	if fd == nil {
		for _, f := range pkg.Syntax {
			for _, d := range f.Decls {
				if x, ok := d.(*ast.FuncDecl); ok && x.Name.Name == name {
					fd = x
				}
			}
		}
	}
	if fd == nil || fd.Body == nil {
		return nil, fmt.Errorf("function %s not found", name)
	}
	t := &SwitchTable{Func: fd}
	var sw *ast.SwitchStmt
	for _, st := range fd.Body.List {
		switch x := st.(type) {
		case *ast.SwitchStmt:
			if sw != nil {
				return nil, fmt.Errorf("%s: more than one switch", name)
			}
			sw = x
		case *ast.ReturnStmt:
			if sw == nil {
				return nil, fmt.Errorf("%s: return before the switch", name)
			}
			if len(x.Results) < 1 {
				return nil, fmt.Errorf("%s: bare return", name)
			}
			v, obj, err := constExpr(pkg, x.Results[0])
			if err != nil {
				return nil, fmt.Errorf("%s: default result: %v", name, err)
			}
			t.Default, t.DefObj = v, obj
		default:
			return nil, fmt.Errorf("%s: unsupported statement %T", name, st)
		}
	}
	if sw == nil || sw.Init != nil || sw.Tag == nil {
		return nil, fmt.Errorf("%s: not a plain switch on an expression", name)
	}
	t.Tag = sw.Tag
	for _, cl := range sw.Body.List {
		cc := cl.(*ast.CaseClause)
		if cc.List == nil {
			return nil, fmt.Errorf("%s: default clause inside the switch is not supported", name)
		}
		row := SwitchRow{Pos: cc.Pos()}
		for _, e := range cc.List {
			tv, ok := pkg.TypesInfo.Types[e]
			if !ok || tv.Value == nil {
				return nil, fmt.Errorf("%s: non-constant case expression", name)
			}
			row.KeyVals = append(row.KeyVals, tv.Value)
			if id, ok := e.(*ast.Ident); ok {
				row.Keys = append(row.Keys, id.Name)
			} else if se, ok := e.(*ast.SelectorExpr); ok {
				row.Keys = append(row.Keys, se.Sel.Name)
			} else {
				row.Keys = append(row.Keys, tv.Value.ExactString())
			}
		}
		if len(cc.Body) != 1 {
			return nil, fmt.Errorf("%s: case body with %d statements", name, len(cc.Body))
		}
		switch b := cc.Body[0].(type) {
		case *ast.ReturnStmt:
			v, obj, err := constExpr(pkg, b.Results[0])
			if err != nil {
				return nil, fmt.Errorf("%s: %v", name, err)
			}
			row.Result, row.ResultObj = v, obj
		case *ast.IfStmt:
			// if <var> != CONST { return lit }
			be, ok := b.Cond.(*ast.BinaryExpr)
			if !ok || be.Op != token.NEQ || b.Else != nil || b.Init != nil || len(b.Body.List) != 1 {
				return nil, fmt.Errorf("%s: unsupported conditional case body", name)
			}
			rs, ok := b.Body.List[0].(*ast.ReturnStmt)
			if !ok {
				return nil, fmt.Errorf("%s: unsupported conditional case body", name)
			}
			v, obj, err := constExpr(pkg, rs.Results[0])
			if err != nil {
				return nil, fmt.Errorf("%s: %v", name, err)
			}
			row.Result, row.ResultObj = v, obj
			if id, ok := be.Y.(*ast.Ident); ok {
				row.Except = append(row.Except, id.Name)
			} else {
				return nil, fmt.Errorf("%s: unsupported exception operand", name)
			}
		default:
			return nil, fmt.Errorf("%s: unsupported case body %T", name, b)
		}
		t.Rows = append(t.Rows, row)
	}
	return t, nil
}

// constExpr evaluates a constant result: string literal value, or the name of a named constant.
func constExpr(pkg *packages.Package, e ast.Expr) (string, types.Object, error) {
	tv, ok := pkg.TypesInfo.Types[e]
	if !ok || tv.Value == nil {
		return "", nil, fmt.Errorf("non-constant result")
	}
	if id, ok := e.(*ast.Ident); ok {
		if obj := pkg.TypesInfo.Uses[id]; obj != nil {
			if _, isConst := obj.(*types.Const); isConst {
				return id.Name, obj, nil
			}
		}
	}
	if tv.Value.Kind() == constant.String {
		return constant.StringVal(tv.Value), nil, nil
	}
	return tv.Value.ExactString(), nil, nil
}

// Lookup evaluates the table for a key constant name and an optional exception name.
func (t *SwitchTable) Lookup(key string, second string) string {
	for _, r := range t.Rows {
		for _, k := range r.Keys {
			if k == key {
				for _, ex := range r.Except {
					if ex == second {
						return t.Default
					}
				}
				return r.Result
			}
		}
	}
	return t.Default
}

// ConstsOfType lists the named constants of a package that have the given named type, in declaration order of value.
func ConstsOfType(pkg *packages.Package, typeName string) []*types.Const {
	var out []*types.Const
	scope := pkg.Types.Scope()
	for _, n := range scope.Names() {
		c, ok := scope.Lookup(n).(*types.Const)
		if !ok {
			continue
		}
		if named, ok := c.Type().(*types.Named); ok && named.Obj().Name() == typeName {
			out = append(out, c)
		}
	}
	return out
}
