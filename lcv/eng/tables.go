package eng

// E7: relations read from the code (not executed): the declared constants of an enumeration. The relation a table
// function defines over them is read by consteval.go (E7b).

import (
	"go/types"

	"golang.org/x/tools/go/packages"
)

// ConstsOfType lists the named constants of a package that have the given named type, in declaration order of value.
func ConstsOfType(pkg *packages.Package, typeName string) []*types.Const {
	var out []*types.Const
	scope := pkg.Types.Scope()
	for _, n := range scope.Names() {
		c, ok := scope.Lookup(n).(*types.Const)
		if !ok {
			continue
		}
		if named, ok := c.Type().(*types.Named); ok && named.Obj().Name() == typeName {
			out = append(out, c)
		}
	}
	return out
}
