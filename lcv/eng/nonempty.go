package eng

// E4 (part): NonEmpty obligations. Every index/slice expression whose index is a
// constant k, or len(x)-c, needs len(x) >= k+1 (resp. >= c). Obligations are
// discharged by dominating facts, by construction, or by audited provenance rules.

import (
	"fmt"
	"go/token"
	"go/types"
	"strings"

	"golang.org/x/tools/go/ssa"

	"lcv/core"
)

type NEObligation struct {
	Fn        *ssa.Function
	Instr     ssa.Instruction
	Container ssa.Value
	Need      int64 // minimum length required
	Expr      string
	Key       string // stable construct key
}

func isArrayLike(t types.Type) bool {
	if p, ok := t.Underlying().(*types.Pointer); ok {
		_, ok := p.Elem().Underlying().(*types.Array)
		return ok
	}
	_, ok := t.Underlying().(*types.Array)
	return ok
}

// lenMinus: v == len(x) - c.
func lenMinus(v ssa.Value) (ssa.Value, int64, bool) {
	b, ok := v.(*ssa.BinOp)
	if !ok || b.Op != token.SUB {
		return nil, 0, false
	}
	c, ok := core.ConstInt(b.Y)
	if !ok {
		return nil, 0, false
	}
	call, ok := b.X.(*ssa.Call)
	if !ok {
		return nil, 0, false
	}
	if bi, ok := call.Call.Value.(*ssa.Builtin); ok && bi.Name() == "len" {
		return call.Call.Args[0], c, true
	}
	return nil, 0, false
}

// FindNonEmpty enumerates the obligations of the given functions.
func FindNonEmpty(fns []*ssa.Function) []*NEObligation {
	var out []*NEObligation
	for _, fn := range fns {
		for _, b := range fn.Blocks {
			for _, ins := range b.Instrs {
				add := func(cont ssa.Value, need int64, expr string) {
					if need <= 0 {
						return
					}
					o := &NEObligation{Fn: fn, Instr: ins, Container: cont, Need: need, Expr: expr}
					o.Key = fmt.Sprintf("%s: %s needs len(%s) >= %d", core.ShortFn(fn), expr, Describe(cont), need)
					out = append(out, o)
				}
				idx := func(x ssa.Value, index ssa.Value) {
					if isArrayLike(x.Type()) {
						return
					}
					if k, ok := core.ConstInt(index); ok {
						add(x, k+1, fmt.Sprintf("x[%d]", k))
					} else if c, k, ok := lenMinus(index); ok && core.AP(c) == core.AP(x) {
						add(x, k, fmt.Sprintf("x[len(x)-%d]", k))
					} else if prm, isPrm := index.(*ssa.Parameter); isPrm {
						// a position handed down by the callers of an unexported helper: constant at every call site
						if k, ok := maxConstArg(prm); ok {
							add(x, k+1, fmt.Sprintf("x[p] with p <= %d at every call site", k))
						}
					}
				}
				switch x := ins.(type) {
				case *ssa.IndexAddr:
					idx(x.X, x.Index)
				case *ssa.Index:
					idx(x.X, x.Index)
				case *ssa.Lookup:
					// string indexing s[k] is a Lookup on a string
					if bt, ok := x.X.Type().Underlying().(*types.Basic); ok && bt.Info()&types.IsString != 0 {
						idx(x.X, x.Index)
					}
				case *ssa.Slice:
					if isArrayLike(x.X.Type()) {
						continue
					}
					for _, bd := range []ssa.Value{x.Low, x.High} {
						if bd == nil {
							continue
						}
						if k, ok := core.ConstInt(bd); ok && k > 0 {
							add(x.X, k, fmt.Sprintf("x[..%d..]", k))
						} else if c, k, ok := lenMinus(bd); ok && core.AP(c) == core.AP(x.X) {
							add(x.X, k, fmt.Sprintf("x[..len(x)-%d..]", k))
						}
					}
				}
			}
		}
	}
	return out
}

// fieldStored: fn contains a store to a field with this name (invalidates access-path equality on loads of it).
func fieldStored(fn *ssa.Function, ap string) bool {
	for _, b := range fn.Blocks {
		for _, in := range b.Instrs {
			if st, ok := in.(*ssa.Store); ok {
				if fa, ok := st.Addr.(*ssa.FieldAddr); ok {
					if strings.Contains(ap, "."+core.FieldName(fa)) {
						return true
					}
				}
			}
		}
	}
	return false
}

// LowerBoundFromFacts derives a lower bound on len(container) from the branch
// conditions that dominate the instruction.
func LowerBoundFromFacts(in ssa.Instruction, container ssa.Value) (int64, []string) {
	lb, used := lowerBoundFrom(in, container, core.FactsAtInstr(in))
	// A block entered over several branch edges (`for a || b { ... }` is compiled to two tests that both jump to the
	// body): the bound that every entering edge establishes also holds in the block.
	b := in.Block()
	if len(b.Preds) >= 2 {
		m := int64(-1)
		var why []string
		for _, pr := range b.Preds {
			fs := append([]core.Fact{}, core.FactsAt(pr)...)
			if ifi, ok := pr.Instrs[len(pr.Instrs)-1].(*ssa.If); ok && len(pr.Succs) == 2 && pr.Succs[0] != pr.Succs[1] {
				cond, truth := ifi.Cond, pr.Succs[0] == b
				for {
					if u, ok := cond.(*ssa.UnOp); ok && u.Op == token.NOT {
						cond, truth = u.X, !truth
						continue
					}
					break
				}
				fs = append(fs, core.Fact{Cond: cond, Truth: truth, If: ifi})
			}
			l, u := lowerBoundFrom(in, container, fs)
			if m < 0 || l < m {
				m = l
			}
			why = append(why, u...)
		}
		if m > lb {
			lb = m
			used = append(used, "on every edge into the block: "+strings.Join(why, "; "))
		}
	}
	return lb, used
}

func lowerBoundFrom(in ssa.Instruction, container ssa.Value, facts []core.Fact) (int64, []string) {
	capName := core.AP(container)
	if strings.Contains(capName, ".") && fieldStored(in.Parent(), capName) {
		// a store to the field between the test and the use could change it; only trust
		// facts on the very same SSA value
		capName = ""
	}
	lb := int64(0)
	excluded := map[int64]bool{}
	var used []string
	isLen := func(v ssa.Value) bool {
		call, ok := v.(*ssa.Call)
		if !ok {
			return false
		}
		bi, ok := call.Call.Value.(*ssa.Builtin)
		if !ok || bi.Name() != "len" {
			return false
		}
		a := call.Call.Args[0]
		return a == container || (capName != "" && core.AP(a) == capName)
	}
	isLenAcc := func(v ssa.Value) bool {
		// pure accessor returning len(x.f), e.g. d.size()
		call, ok := v.(*ssa.Call)
		if !ok {
			return false
		}
		if s, ok := core.InlineAccessor(call); ok && capName != "" && s == "len("+capName+")" {
			return true
		}
		return false
	}
	for _, f := range facts {
		cmp, ok := f.AsCmp()
		if !ok {
			// strings.HasSuffix(x, "const") / HasPrefix true => len(x) >= len(const)
			if call, ok := f.Cond.(*ssa.Call); ok && f.Truth {
				n := core.StaticCalleeName(&call.Call)
				if (n == "strings.HasSuffix" || n == "strings.HasPrefix") && len(call.Call.Args) == 2 {
					if s, ok := core.ConstString(call.Call.Args[1]); ok && (call.Call.Args[0] == container || (capName != "" && core.AP(call.Call.Args[0]) == capName)) {
						if int64(len(s)) > lb {
							lb = int64(len(s))
							used = append(used, fmt.Sprintf("%s(x, %q) holds", n, s))
						}
					}
				}
			}
			continue
		}
		x, y, op := cmp.X, cmp.Y, cmp.Op
		if !(isLen(x) || isLenAcc(x)) {
			// flip
			if isLen(y) || isLenAcc(y) {
				x, y = y, x
				switch op {
				case token.LSS:
					op = token.GTR
				case token.GTR:
					op = token.LSS
				case token.LEQ:
					op = token.GEQ
				case token.GEQ:
					op = token.LEQ
				}
			} else {
				continue
			}
		}
		k, ok := core.ConstInt(y)
		if !ok {
			// idx < len(x) with idx a slice-range index (>= 0): len(x) >= 1
			if (op == token.GTR || op == token.GEQ) && nonNegative(y) {
				min := int64(0)
				if op == token.GTR {
					min = 1
				}
				if min > lb {
					lb = min
					used = append(used, "inside a loop whose index is below len(x)")
				}
			}
			continue
		}
		switch op {
		case token.GTR:
			if k+1 > lb {
				lb = k + 1
			}
		case token.GEQ:
			if k > lb {
				lb = k
			}
		case token.NEQ:
			excluded[k] = true
		case token.EQL:
			if k > lb {
				lb = k
			}
		default:
			continue
		}
		used = append(used, fmt.Sprintf("len(x) %s %d holds", op, k))
	}
	for excluded[lb] {
		lb++
	}
	return lb, used
}

// MinLen computes a lower bound on the length of a slice/string value by construction.
func MinLen(v ssa.Value) int64 {
	return minLen(v, map[ssa.Value]bool{})
}

const inf = int64(1) << 40

func minLen(v ssa.Value, visiting map[ssa.Value]bool) int64 {
	if visiting[v] {
		return inf // cycle: contributes nothing to the minimum
	}
	visiting[v] = true
	defer delete(visiting, v)
	switch x := v.(type) {
	case *ssa.Const:
		if s, ok := core.ConstString(x); ok {
			return int64(len(s))
		}
		return 0
	case *ssa.Slice:
		if al, ok := x.X.(*ssa.Alloc); ok && x.Low == nil && x.High == nil {
			if arr, ok := al.Type().Underlying().(*types.Pointer).Elem().Underlying().(*types.Array); ok {
				return arr.Len()
			}
		}
		return 0
	case *ssa.MakeSlice:
		if k, ok := core.ConstInt(x.Len); ok {
			return k
		}
		return 0
	case *ssa.Phi:
		m := inf
		for _, e := range x.Edges {
			if l := minLen(e, visiting); l < m {
				m = l
			}
		}
		if m == inf {
			return 0
		}
		return m
	case *ssa.Call:
		if bi, ok := x.Call.Value.(*ssa.Builtin); ok && bi.Name() == "append" {
			base := minLen(x.Call.Args[0], visiting)
			if base == inf {
				base = 0
			}
			add := int64(0)
			if len(x.Call.Args) > 1 {
				add = minLen(x.Call.Args[1], visiting)
				if add == inf {
					add = 0
				}
			}
			return base + add
		}
		switch core.StaticCalleeName(&x.Call) {
		case "strings.Split", "strings.SplitN", "bytes.Split":
			return 1
		}
		return 0
	case *ssa.Convert:
		return 0
	}
	return 0
}

// MapValuesMinLen: container is the value of a comma-ok lookup `v, ok := m[k]` with ok
// known true; returns the minimum length of every value ever stored into that map.
func MapValuesMinLen(in ssa.Instruction, container ssa.Value) (int64, bool) {
	ex, ok := container.(*ssa.Extract)
	if !ok || ex.Index != 0 {
		return 0, false
	}
	lk, ok := ex.Tuple.(*ssa.Lookup)
	if !ok || !lk.CommaOk {
		return 0, false
	}
	// ok must be known true
	okTrue := false
	for _, f := range core.FactsAtInstr(in) {
		if e2, isEx := f.Cond.(*ssa.Extract); isEx && e2.Tuple == lk && e2.Index == 1 && f.Truth {
			okTrue = true
		}
	}
	if !okTrue {
		return 0, false
	}
	mm, ok := lk.X.(*ssa.MakeMap)
	if !ok {
		return 0, false
	}
	m := inf
	n := 0
	for _, r := range *mm.Referrers() {
		switch u := r.(type) {
		case *ssa.MapUpdate:
			n++
			if l := MinLen(u.Value); l < m {
				m = l
			}
		case *ssa.Lookup, *ssa.Range, *ssa.DebugRef:
		case *ssa.Call:
			if bi, ok := u.Call.Value.(*ssa.Builtin); ok && (bi.Name() == "len" || bi.Name() == "delete") {
				continue
			}
			return 0, false // escapes
		default:
			return 0, false
		}
	}
	if n == 0 || m == inf {
		return 0, false
	}
	return m, true
}

// nonNegative: v is a constant >= 0 or the index of a slice range loop (phi starting at -1, incremented by 1).
func nonNegative(v ssa.Value) bool {
	if k, ok := core.ConstInt(v); ok {
		return k >= 0
	}
	bo, ok := v.(*ssa.BinOp)
	if !ok || bo.Op != token.ADD {
		// a plain loop counter: phi [0, phi+1]
		if phi, ok := v.(*ssa.Phi); ok {
			return counterFrom(phi, 0)
		}
		return false
	}
	one, ok := core.ConstInt(bo.Y)
	if !ok || one != 1 {
		return false
	}
	phi, ok := bo.X.(*ssa.Phi)
	if !ok {
		return false
	}
	for _, e := range phi.Edges {
		if e == bo {
			continue
		}
		if k, ok := core.ConstInt(e); !ok || k < -1 {
			return false
		}
	}
	return true
}

func counterFrom(phi *ssa.Phi, min int64) bool {
	for _, e := range phi.Edges {
		if k, ok := core.ConstInt(e); ok {
			if k < min {
				return false
			}
			continue
		}
		bo, ok := e.(*ssa.BinOp)
		if !ok || bo.Op != token.ADD || bo.X != phi {
			return false
		}
		if k, ok := core.ConstInt(bo.Y); !ok || k < 0 {
			return false
		}
	}
	return true
}

// InductiveNonEmpty proves len(container) >= 1 by induction over the iterations of a counted loop, for the idiom
//
//	var acc []T
//	for i := range xs { if i > 0 && ... { acc[len(acc)-1] ... } else { acc = append(acc, ...) } }
//
// container is the loop-header phi of acc. Invariant: "not the first iteration => len(acc) >= 1". It holds vacuously in
// the first iteration; it is preserved if every value that flows back to the header either gained an element (an append
// of at least one element) or is acc itself on a path whose branch conditions exclude the first iteration (where the
// invariant gives len >= 1 already). The access is safe if the conditions that dominate it exclude the first iteration.
// The first iteration is identified by a counter phi of the same header (constant start, incremented by a positive
// constant on every back edge).
func InductiveNonEmpty(in ssa.Instruction, container ssa.Value) (bool, string) {
	acc, ok := container.(*ssa.Phi)
	if !ok {
		return false, ""
	}
	h := acc.Block()
	isBack := func(i int) bool { return h.Dominates(h.Preds[i]) }
	nBack := 0
	for i := range h.Preds {
		if isBack(i) {
			nBack++
		}
	}
	if nBack == 0 || !h.Dominates(in.Block()) {
		return false, ""
	}
	// the counter
	for _, ins := range h.Instrs {
		cnt, ok := ins.(*ssa.Phi)
		if !ok {
			break
		}
		if b, isB := cnt.Type().Underlying().(*types.Basic); !isB || b.Info()&types.IsInteger == 0 {
			continue
		}
		c0, okC := int64(0), true
		var inc *ssa.BinOp
		first := true
		for i, e := range cnt.Edges {
			if isBack(i) {
				bo, isBo := e.(*ssa.BinOp)
				if !isBo || bo.Op != token.ADD || bo.X != ssa.Value(cnt) {
					okC = false
					break
				}
				if k, isK := core.ConstInt(bo.Y); !isK || k < 1 {
					okC = false
					break
				}
				if inc != nil && inc != bo {
					okC = false
					break
				}
				inc = bo
			} else {
				k, isK := core.ConstInt(e)
				if !isK || (!first && k != c0) {
					okC = false
					break
				}
				c0, first = k, false
			}
		}
		if !okC || inc == nil || first {
			continue
		}
		step, _ := core.ConstInt(inc.Y)
		// notFirst: the facts exclude the first iteration (counter == c0, incremented value == c0+step)
		notFirst := func(facts []core.Fact) bool {
			for _, f := range facts {
				cmp, ok := f.AsCmp()
				if !ok {
					continue
				}
				x, y, op := cmp.X, cmp.Y, cmp.Op
				if _, isC := core.ConstInt(x); isC {
					x, y = y, x
					switch op {
					case token.LSS:
						op = token.GTR
					case token.GTR:
						op = token.LSS
					case token.LEQ:
						op = token.GEQ
					case token.GEQ:
						op = token.LEQ
					}
				}
				k, isK := core.ConstInt(y)
				if !isK {
					continue
				}
				v0 := c0
				switch x {
				case ssa.Value(cnt):
				case ssa.Value(inc):
					v0 = c0 + step
				default:
					continue
				}
				// the counter never goes below its first value, so V > k with k >= v0, V >= k with k > v0 and V != v0
				// each exclude V == v0
				if (op == token.GTR && k >= v0) || (op == token.GEQ && k > v0) || (op == token.NEQ && k == v0) {
					return true
				}
			}
			return false
		}
		edgeFacts := func(q, to *ssa.BasicBlock) []core.Fact {
			fs := append([]core.Fact{}, core.FactsAt(q)...)
			if ifi, ok := q.Instrs[len(q.Instrs)-1].(*ssa.If); ok && len(q.Succs) == 2 && q.Succs[0] != q.Succs[1] {
				cond, truth := ifi.Cond, q.Succs[0] == to
				for {
					if u, ok := cond.(*ssa.UnOp); ok && u.Op == token.NOT {
						cond, truth = u.X, !truth
						continue
					}
					break
				}
				fs = append(fs, core.Fact{Cond: cond, Truth: truth, If: ifi})
			}
			return fs
		}
		// preserved: the value v that leaves block q towards block `to` has length >= 1, given the invariant
		var preserved func(v ssa.Value, q, to *ssa.BasicBlock, depth int) bool
		preserved = func(v ssa.Value, q, to *ssa.BasicBlock, depth int) bool {
			if depth > 8 {
				return false
			}
			if v == ssa.Value(acc) {
				return notFirst(edgeFacts(q, to))
			}
			switch x := v.(type) {
			case *ssa.Phi:
				if x.Block() == h || !h.Dominates(x.Block()) {
					return false
				}
				for i, e := range x.Edges {
					if !preserved(e, x.Block().Preds[i], x.Block(), depth+1) {
						return false
					}
				}
				return true
			case *ssa.Call:
				if bi, ok := x.Call.Value.(*ssa.Builtin); ok && bi.Name() == "append" && len(x.Call.Args) == 2 {
					if MinLen(x.Call.Args[1]) >= 1 {
						return true
					}
					// append of nothing provable: as good as its first argument at the place of the call
					return false
				}
			}
			return MinLen(v) >= 1
		}
		okAll := true
		for i, e := range acc.Edges {
			if isBack(i) && !preserved(e, h.Preds[i], h, 0) {
				okAll = false
			}
		}
		if !okAll {
			continue
		}
		if notFirst(core.FactsAtInstr(in)) {
			return true, fmt.Sprintf("induction over the loop counter %s: the access is outside the first iteration, and every value that flows back to the loop head has gained an element or is unchanged on a path outside the first iteration", cnt.Name())
		}
	}
	return false, ""
}

// CallSitesOf lists the static call sites of a package-level function inside its own package and reports whether the
// function is also used as a value (stored, passed, deferred through a variable): then it can be called from places that
// are not listed.
func CallSitesOf(fn *ssa.Function) (sites []ssa.CallInstruction, escapes bool) {
	if fn == nil || fn.Pkg == nil {
		return nil, true
	}
	var buf [12]*ssa.Value
	for _, g := range pkgFunctions(fn.Pkg) {
		for _, b := range g.Blocks {
			for _, in := range b.Instrs {
				call, isCall := in.(ssa.CallInstruction)
				for _, op := range in.Operands(buf[:0]) {
					if op == nil || *op != ssa.Value(fn) {
						continue
					}
					if isCall && call.Common().Value == ssa.Value(fn) && !call.Common().IsInvoke() {
						// counted below; but fn may also be one of the arguments
						continue
					}
					escapes = true
				}
				if isCall && call.Common().Value == ssa.Value(fn) && !call.Common().IsInvoke() {
					sites = append(sites, call)
					for _, a := range call.Common().Args {
						if a == ssa.Value(fn) {
							escapes = true
						}
					}
				}
			}
		}
	}
	return sites, escapes
}

// maxConstArg: prm is a parameter of an unexported function that is only called directly, with an integer constant in
// that position at every call site; returns the largest such constant.
func maxConstArg(prm *ssa.Parameter) (int64, bool) {
	fn := prm.Parent()
	if fn == nil || fn.Object() == nil || fn.Object().Exported() || fn.Parent() != nil {
		return 0, false
	}
	idx := -1
	for i, q := range fn.Params {
		if q == prm {
			idx = i
		}
	}
	sites, esc := CallSitesOf(fn)
	if esc || len(sites) == 0 || idx < 0 {
		return 0, false
	}
	m := int64(-1)
	for _, call := range sites {
		if idx >= len(call.Common().Args) {
			return 0, false
		}
		k, ok := core.ConstInt(call.Common().Args[idx])
		if !ok || k < 0 {
			return 0, false
		}
		if k > m {
			m = k
		}
	}
	return m, true
}
