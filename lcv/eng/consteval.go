package eng

// E7b: finite-domain table extraction by conditional constant propagation.
//
// A "table function" maps a constant of an enumeration (and nothing else) to a
// constant. Its relation is read by propagating one declared constant at a time
// through the function's SSA form: constants fold, a branch on a constant
// condition selects one successor, a phi takes the edge that was followed, and a
// call to another function of the same package with constant arguments is
// propagated the same way. Anything that is not constant (a load from mutable
// state, a dynamic call, a parameter that was not bound) makes the table
// "not readable" - the caller reports that as undecided. No repository code runs.

import (
	"fmt"
	"go/constant"
	"go/token"
	"go/types"

	"golang.org/x/tools/go/ssa"
)

// ConstEvaluator caches map-literal globals and bounds the work.
type ConstEvaluator struct {
	maps  map[*ssa.Global]map[string]constant.Value // key: ExactString of the key constant
	steps int
}

func NewConstEvaluator() *ConstEvaluator {
	return &ConstEvaluator{maps: map[*ssa.Global]map[string]constant.Value{}}
}

type tupleVal []constant.Value

// Eval returns the constant results of fn applied to constant arguments.
func (ce *ConstEvaluator) Eval(fn *ssa.Function, args []constant.Value) ([]constant.Value, error) {
	ce.steps = 0
	return ce.eval(fn, args, 0)
}

func (ce *ConstEvaluator) eval(fn *ssa.Function, args []constant.Value, depth int) ([]constant.Value, error) {
	if fn == nil || len(fn.Blocks) == 0 {
		return nil, fmt.Errorf("no body")
	}
	if depth > 6 {
		return nil, fmt.Errorf("%s: call depth", fn.Name())
	}
	if len(args) != len(fn.Params) {
		return nil, fmt.Errorf("%s: %d arguments for %d parameters", fn.Name(), len(args), len(fn.Params))
	}
	env := map[ssa.Value]constant.Value{}
	tup := map[ssa.Value]tupleVal{}
	for i, p := range fn.Params {
		if args[i] != nil {
			env[p] = args[i]
		}
	}
	get := func(v ssa.Value) (constant.Value, bool) {
		switch x := v.(type) {
		case *ssa.Const:
			if x.Value == nil {
				// zero value of a basic type
				if b, ok := x.Type().Underlying().(*types.Basic); ok {
					switch {
					case b.Info()&types.IsString != 0:
						return constant.MakeString(""), true
					case b.Info()&types.IsBoolean != 0:
						return constant.MakeBool(false), true
					case b.Info()&types.IsNumeric != 0:
						return constant.MakeInt64(0), true
					}
				}
				return nil, false
			}
			return x.Value, true
		}
		c, ok := env[v]
		return c, ok
	}
	var prev *ssa.BasicBlock
	b := fn.Blocks[0]
	for {
		var next *ssa.BasicBlock
		for _, in := range b.Instrs {
			ce.steps++
			if ce.steps > 200000 {
				return nil, fmt.Errorf("%s: step bound", fn.Name())
			}
			switch x := in.(type) {
			case *ssa.DebugRef:
			case *ssa.Phi:
				for k, p := range b.Preds {
					if p == prev {
						if c, ok := get(x.Edges[k]); ok {
							env[x] = c
						}
						if t, ok := tup[x.Edges[k]]; ok {
							tup[x] = t
						}
					}
				}
			case *ssa.BinOp:
				l, ok1 := get(x.X)
				r, ok2 := get(x.Y)
				if !ok1 || !ok2 {
					continue
				}
				switch x.Op {
				case token.EQL, token.NEQ, token.LSS, token.LEQ, token.GTR, token.GEQ:
					if l.Kind() != r.Kind() && !(numeric(l) && numeric(r)) {
						continue
					}
					env[x] = constant.MakeBool(constant.Compare(l, x.Op, r))
				case token.ADD, token.SUB, token.MUL, token.AND, token.OR, token.XOR:
					if l.Kind() == r.Kind() && (l.Kind() == constant.Int || (l.Kind() == constant.String && x.Op == token.ADD)) {
						env[x] = constant.BinaryOp(l, x.Op, r)
					}
				}
			case *ssa.UnOp:
				switch x.Op {
				case token.NOT:
					if c, ok := get(x.X); ok && c.Kind() == constant.Bool {
						env[x] = constant.MakeBool(!constant.BoolVal(c))
					}
				case token.SUB:
					if c, ok := get(x.X); ok && c.Kind() == constant.Int {
						env[x] = constant.UnaryOp(token.SUB, c, 0)
					}
				}
			case *ssa.Convert:
				if c, ok := get(x.X); ok {
					// only conversions that keep the constant's kind (named <-> underlying integer / string types)
					sb, ok1 := x.X.Type().Underlying().(*types.Basic)
					db, ok2 := x.Type().Underlying().(*types.Basic)
					if ok1 && ok2 && (sb.Info()&types.IsInteger != 0) == (db.Info()&types.IsInteger != 0) && (sb.Info()&types.IsString != 0) == (db.Info()&types.IsString != 0) {
						env[x] = c
					}
				}
			case *ssa.ChangeType:
				if c, ok := get(x.X); ok {
					env[x] = c
				}
			case *ssa.Lookup:
				// m[k] on a package-level map that is only ever assigned its literal
				u, ok := x.X.(*ssa.UnOp)
				if !ok || u.Op != token.MUL {
					continue
				}
				g, ok := u.X.(*ssa.Global)
				if !ok {
					continue
				}
				k, ok := get(x.Index)
				if !ok {
					continue
				}
				tab, err := ce.mapLiteral(g)
				if err != nil {
					return nil, err
				}
				v, found := tab[k.ExactString()]
				if !found {
					v = zeroConst(x.X.Type().Underlying().(*types.Map).Elem())
					if v == nil {
						continue
					}
				}
				if x.CommaOk {
					tup[x] = tupleVal{v, constant.MakeBool(found)}
				} else {
					env[x] = v
				}
			case *ssa.Extract:
				if t, ok := tup[x.Tuple]; ok && x.Index < len(t) && t[x.Index] != nil {
					env[x] = t[x.Index]
				}
			case *ssa.Call:
				cal := x.Call.StaticCallee()
				if cal == nil || x.Call.IsInvoke() || cal.Pkg != fn.Pkg || len(cal.Blocks) == 0 {
					continue
				}
				cargs := make([]constant.Value, len(x.Call.Args))
				all := true
				for i, a := range x.Call.Args {
					c, ok := get(a)
					if !ok {
						all = false
						break
					}
					cargs[i] = c
				}
				if !all {
					continue
				}
				res, err := ce.eval(cal, cargs, depth+1)
				if err != nil {
					continue // stays non-constant; reported only if the result is needed
				}
				if len(res) == 1 {
					env[x] = res[0]
				} else {
					tup[x] = res
				}
			case *ssa.If:
				c, ok := get(x.Cond)
				if !ok || c.Kind() != constant.Bool {
					return nil, fmt.Errorf("%s: branch on a value that is not a constant of the bound arguments (%s)", fn.Name(), x.Cond.Name())
				}
				if constant.BoolVal(c) {
					next = b.Succs[0]
				} else {
					next = b.Succs[1]
				}
			case *ssa.Jump:
				next = b.Succs[0]
			case *ssa.Return:
				out := make([]constant.Value, len(x.Results))
				for i, r := range x.Results {
					c, ok := get(r)
					if !ok {
						return nil, fmt.Errorf("%s: result %d is not a constant of the bound arguments", fn.Name(), i)
					}
					out[i] = c
				}
				return out, nil
			case *ssa.Panic:
				return nil, fmt.Errorf("%s: panics", fn.Name())
			default:
				// instructions with effects or non-constant results are left unbound; a later use reports it
			}
		}
		if next == nil {
			return nil, fmt.Errorf("%s: block without a decided successor", fn.Name())
		}
		prev, b = b, next
	}
}

func numeric(c constant.Value) bool {
	return c.Kind() == constant.Int || c.Kind() == constant.Float
}

func zeroConst(t types.Type) constant.Value {
	if b, ok := t.Underlying().(*types.Basic); ok {
		switch {
		case b.Info()&types.IsString != 0:
			return constant.MakeString("")
		case b.Info()&types.IsBoolean != 0:
			return constant.MakeBool(false)
		case b.Info()&types.IsNumeric != 0:
			return constant.MakeInt64(0)
		}
	}
	return nil
}

// mapLiteral reads a package-level map whose only assignment is its literal in the package initialiser
// (constant keys and values) and that no function of the package updates.
func (ce *ConstEvaluator) mapLiteral(g *ssa.Global) (map[string]constant.Value, error) {
	if t, ok := ce.maps[g]; ok {
		if t == nil {
			return nil, fmt.Errorf("map %s is not a constant literal", g.Name())
		}
		return t, nil
	}
	ce.maps[g] = nil
	pkg := g.Pkg
	var mk ssa.Value
	stores := 0
	var fns []*ssa.Function
	for _, m := range pkg.Members {
		if f, ok := m.(*ssa.Function); ok {
			fns = append(fns, f)
			fns = append(fns, f.AnonFuncs...)
		}
		if t, ok := m.(*ssa.Type); ok {
			for _, recv := range []types.Type{t.Type(), types.NewPointer(t.Type())} {
				ms := pkg.Prog.MethodSets.MethodSet(recv)
				for i := 0; i < ms.Len(); i++ {
					if f := pkg.Prog.MethodValue(ms.At(i)); f != nil && f.Pkg == pkg {
						fns = append(fns, f)
						fns = append(fns, f.AnonFuncs...)
					}
				}
			}
		}
	}
	for _, f := range fns {
		for _, b := range f.Blocks {
			for _, in := range b.Instrs {
				if st, ok := in.(*ssa.Store); ok && st.Addr == ssa.Value(g) {
					stores++
					mk = st.Val
				}
			}
		}
	}
	if stores != 1 {
		return nil, fmt.Errorf("map %s is assigned %d times", g.Name(), stores)
	}
	if _, ok := mk.(*ssa.MakeMap); !ok {
		return nil, fmt.Errorf("map %s is not built by a literal", g.Name())
	}
	tab := map[string]constant.Value{}
	for _, f := range fns {
		for _, b := range f.Blocks {
			for _, in := range b.Instrs {
				mu, ok := in.(*ssa.MapUpdate)
				if !ok {
					continue
				}
				isLit := mu.Map == mk
				if !isLit {
					// an update through a load of the global
					if u, ok := mu.Map.(*ssa.UnOp); ok && u.X == ssa.Value(g) {
						return nil, fmt.Errorf("map %s is updated in %s", g.Name(), f.Name())
					}
					continue
				}
				k, ok1 := mu.Key.(*ssa.Const)
				v, ok2 := mu.Value.(*ssa.Const)
				if !ok1 || !ok2 || k.Value == nil {
					return nil, fmt.Errorf("map %s has a non-constant entry", g.Name())
				}
				val := v.Value
				if val == nil {
					val = zeroConst(v.Type())
				}
				tab[k.Value.ExactString()] = val
			}
		}
	}
	ce.maps[g] = tab
	return tab, nil
}

// ConstOperandsOfType lists the distinct constants of the named type that occur as operands in the functions.
func ConstOperandsOfType(fns []*ssa.Function, t types.Type) map[string]bool {
	out := map[string]bool{}
	var buf [10]*ssa.Value
	for _, f := range fns {
		for _, b := range f.Blocks {
			for _, in := range b.Instrs {
				for _, op := range in.Operands(buf[:0]) {
					if op == nil || *op == nil {
						continue
					}
					if c, ok := (*op).(*ssa.Const); ok && c.Value != nil && types.Identical(c.Type(), t) {
						out[c.Value.ExactString()] = true
					}
				}
			}
		}
	}
	return out
}
