package eng

// E7b: finite-domain table extraction by conditional constant propagation.
//
// A "table function" maps a constant of an enumeration (and nothing else) to a
// constant. Its relation is read by propagating one declared constant at a time
// through the function's SSA form: constants fold, a branch on a constant
// condition selects one successor, a phi takes the edge that was followed, and a
// call to another function of the same package with constant arguments is
// propagated the same way. Anything that is not constant (a load from mutable
// state, a dynamic call, a parameter that was not bound) makes the table
// "not readable" - the caller reports that as undecided. No repository code runs.

import (
	"fmt"
	"go/constant"
	"go/token"
	"go/types"
	"strings"

	"golang.org/x/tools/go/ssa"
)

// ConstEvaluator caches map-literal globals and bounds the work.
type ConstEvaluator struct {
	maps  map[*ssa.Global]map[string]constant.Value // key: ExactString of the key constant
	cells map[*ssa.Global]map[string]constant.Value // key: path of constant indices and field numbers below the global
	steps int
	// Override replaces the result of a function of the package by fixed constants (to read a table "as if" an
	// inner table had returned a given row).
	Override map[*ssa.Function][]constant.Value
	// ptrs: addresses inside package-level tables that travel through calls and returns are encoded as string constants
	// "\x00ptr:<n>" that index this list
	ptrs []ptrVal
}

type ptrVal struct {
	g    *ssa.Global
	path string
}

const ptrPrefix = "\x00ptr:"

func (ce *ConstEvaluator) ptrConst(g *ssa.Global, path string) constant.Value {
	for i, p := range ce.ptrs {
		if p.g == g && p.path == path {
			return constant.MakeString(fmt.Sprintf("%s%d", ptrPrefix, i))
		}
	}
	ce.ptrs = append(ce.ptrs, ptrVal{g, path})
	return constant.MakeString(fmt.Sprintf("%s%d", ptrPrefix, len(ce.ptrs)-1))
}

func (ce *ConstEvaluator) asPtr(c constant.Value) (ptrVal, bool) {
	if c == nil || c.Kind() != constant.String {
		return ptrVal{}, false
	}
	sv := constant.StringVal(c)
	if !strings.HasPrefix(sv, ptrPrefix) {
		return ptrVal{}, false
	}
	var i int
	if _, err := fmt.Sscanf(strings.TrimPrefix(sv, ptrPrefix), "%d", &i); err != nil || i < 0 || i >= len(ce.ptrs) {
		return ptrVal{}, false
	}
	return ce.ptrs[i], true
}

func NewConstEvaluator() *ConstEvaluator {
	return &ConstEvaluator{maps: map[*ssa.Global]map[string]constant.Value{}, cells: map[*ssa.Global]map[string]constant.Value{}, Override: map[*ssa.Function][]constant.Value{}}
}

type tupleVal []constant.Value

// Eval returns the constant results of fn applied to constant arguments.
func (ce *ConstEvaluator) Eval(fn *ssa.Function, args []constant.Value) ([]constant.Value, error) {
	ce.steps = 0
	return ce.eval(fn, args, 0)
}

func (ce *ConstEvaluator) eval(fn *ssa.Function, args []constant.Value, depth int) ([]constant.Value, error) {
	if fn == nil || len(fn.Blocks) == 0 {
		return nil, fmt.Errorf("no body")
	}
	if depth > 6 {
		return nil, fmt.Errorf("%s: call depth", fn.Name())
	}
	if len(args) != len(fn.Params) {
		return nil, fmt.Errorf("%s: %d arguments for %d parameters", fn.Name(), len(args), len(fn.Params))
	}
	env := map[ssa.Value]constant.Value{}
	tup := map[ssa.Value]tupleVal{}
	for i, p := range fn.Params {
		if args[i] != nil {
			env[p] = args[i]
		}
	}
	get := func(v ssa.Value) (constant.Value, bool) {
		switch x := v.(type) {
		case *ssa.Const:
			if x.Value == nil {
				// zero value of a basic type
				if b, ok := x.Type().Underlying().(*types.Basic); ok {
					switch {
					case b.Info()&types.IsString != 0:
						return constant.MakeString(""), true
					case b.Info()&types.IsBoolean != 0:
						return constant.MakeBool(false), true
					case b.Info()&types.IsNumeric != 0:
						return constant.MakeInt64(0), true
					}
				}
				return nil, false
			}
			return x.Value, true
		}
		c, ok := env[v]
		return c, ok
	}
	var prev *ssa.BasicBlock
	b := fn.Blocks[0]
	for {
		var next *ssa.BasicBlock
		for _, in := range b.Instrs {
			ce.steps++
			if ce.steps > 200000 {
				return nil, fmt.Errorf("%s: step bound", fn.Name())
			}
			switch x := in.(type) {
			case *ssa.DebugRef:
			case *ssa.Phi:
				for k, p := range b.Preds {
					if p == prev {
						if c, ok := get(x.Edges[k]); ok {
							env[x] = c
						}
						if t, ok := tup[x.Edges[k]]; ok {
							tup[x] = t
						}
					}
				}
			case *ssa.BinOp:
				l, ok1 := get(x.X)
				r, ok2 := get(x.Y)
				if !ok1 || !ok2 {
					continue
				}
				switch x.Op {
				case token.EQL, token.NEQ, token.LSS, token.LEQ, token.GTR, token.GEQ:
					if l.Kind() != r.Kind() && !(numeric(l) && numeric(r)) {
						continue
					}
					env[x] = constant.MakeBool(constant.Compare(l, x.Op, r))
				case token.ADD, token.SUB, token.MUL, token.AND, token.OR, token.XOR:
					if l.Kind() == r.Kind() && (l.Kind() == constant.Int || (l.Kind() == constant.String && x.Op == token.ADD)) {
						env[x] = constant.BinaryOp(l, x.Op, r)
					}
				}
			case *ssa.UnOp:
				switch x.Op {
				case token.NOT:
					if c, ok := get(x.X); ok && c.Kind() == constant.Bool {
						env[x] = constant.MakeBool(!constant.BoolVal(c))
					}
				case token.SUB:
					if c, ok := get(x.X); ok && c.Kind() == constant.Int {
						env[x] = constant.UnaryOp(token.SUB, c, 0)
					}
				case token.MUL:
					// a load of one cell of a package-level array / struct that is only written by its literal
					g, path, ok := ce.addrPath(x.X, get)
					if !ok || path == "" {
						continue
					}
					tab, err := ce.globalCells(g)
					if err != nil {
						return nil, err
					}
					if v, found := tab[path]; found {
						if v != nil {
							env[x] = v
						}
					} else if z := zeroConst(x.Type()); z != nil {
						env[x] = z
					}
				}
			case *ssa.Convert:
				if c, ok := get(x.X); ok {
					// only conversions that keep the constant's kind (named <-> underlying integer / string types)
					sb, ok1 := x.X.Type().Underlying().(*types.Basic)
					db, ok2 := x.Type().Underlying().(*types.Basic)
					if ok1 && ok2 && (sb.Info()&types.IsInteger != 0) == (db.Info()&types.IsInteger != 0) && (sb.Info()&types.IsString != 0) == (db.Info()&types.IsString != 0) {
						env[x] = c
					}
				}
			case *ssa.ChangeType:
				if c, ok := get(x.X); ok {
					env[x] = c
				}
			case *ssa.IndexAddr, *ssa.FieldAddr:
				// an address inside a package-level table (it may be returned or passed on)
				if g, path, ok := ce.addrPath(x.(ssa.Value), get); ok && path != "" {
					if _, err := ce.globalCells(g); err == nil {
						env[x.(ssa.Value)] = ce.ptrConst(g, path)
					}
				}
			case *ssa.Lookup:
				// m[k] on a package-level map that is only ever assigned its literal
				u, ok := x.X.(*ssa.UnOp)
				if !ok || u.Op != token.MUL {
					continue
				}
				g, ok := u.X.(*ssa.Global)
				if !ok {
					continue
				}
				k, ok := get(x.Index)
				if !ok {
					continue
				}
				tab, err := ce.mapLiteral(g)
				if err != nil {
					return nil, err
				}
				v, found := tab[k.ExactString()]
				if !found {
					v = zeroConst(x.X.Type().Underlying().(*types.Map).Elem())
					if v == nil {
						continue
					}
				}
				if x.CommaOk {
					tup[x] = tupleVal{v, constant.MakeBool(found)}
				} else {
					env[x] = v
				}
			case *ssa.Extract:
				if t, ok := tup[x.Tuple]; ok && x.Index < len(t) && t[x.Index] != nil {
					env[x] = t[x.Index]
				}
			case *ssa.Call:
				cal := x.Call.StaticCallee()
				if cal == nil || x.Call.IsInvoke() || cal.Pkg != fn.Pkg || len(cal.Blocks) == 0 {
					continue
				}
				if ov, ok := ce.Override[cal]; ok {
					if len(ov) == 1 {
						env[x] = ov[0]
					} else {
						tup[x] = ov
					}
					continue
				}
				cargs := make([]constant.Value, len(x.Call.Args))
				all := true
				for i, a := range x.Call.Args {
					c, ok := get(a)
					if !ok {
						all = false
						break
					}
					cargs[i] = c
				}
				if !all {
					continue
				}
				res, err := ce.eval(cal, cargs, depth+1)
				if err != nil {
					continue // stays non-constant; reported only if the result is needed
				}
				if len(res) == 1 {
					env[x] = res[0]
				} else {
					tup[x] = res
				}
			case *ssa.If:
				c, ok := get(x.Cond)
				if !ok || c.Kind() != constant.Bool {
					return nil, fmt.Errorf("%s: branch on a value that is not a constant of the bound arguments (%s)", fn.Name(), x.Cond.Name())
				}
				if constant.BoolVal(c) {
					next = b.Succs[0]
				} else {
					next = b.Succs[1]
				}
			case *ssa.Jump:
				next = b.Succs[0]
			case *ssa.Return:
				out := make([]constant.Value, len(x.Results))
				for i, r := range x.Results {
					c, ok := get(r)
					if !ok {
						return nil, fmt.Errorf("%s: result %d is not a constant of the bound arguments", fn.Name(), i)
					}
					out[i] = c
				}
				return out, nil
			case *ssa.Panic:
				return nil, fmt.Errorf("%s: panics", fn.Name())
			default:
				// instructions with effects or non-constant results are left unbound; a later use reports it
			}
		}
		if next == nil {
			return nil, fmt.Errorf("%s: block without a decided successor", fn.Name())
		}
		prev, b = b, next
	}
}

func numeric(c constant.Value) bool {
	return c.Kind() == constant.Int || c.Kind() == constant.Float
}

func zeroConst(t types.Type) constant.Value {
	if b, ok := t.Underlying().(*types.Basic); ok {
		switch {
		case b.Info()&types.IsString != 0:
			return constant.MakeString("")
		case b.Info()&types.IsBoolean != 0:
			return constant.MakeBool(false)
		case b.Info()&types.IsNumeric != 0:
			return constant.MakeInt64(0)
		}
	}
	return nil
}

// mapLiteral reads a package-level map whose only assignment is its literal in the package initialiser
// (constant keys and values) and that no function of the package updates.
func (ce *ConstEvaluator) mapLiteral(g *ssa.Global) (map[string]constant.Value, error) {
	if t, ok := ce.maps[g]; ok {
		if t == nil {
			return nil, fmt.Errorf("map %s is not a constant literal", g.Name())
		}
		return t, nil
	}
	ce.maps[g] = nil
	pkg := g.Pkg
	var mk ssa.Value
	stores := 0
	var fns []*ssa.Function
	for _, m := range pkg.Members {
		if f, ok := m.(*ssa.Function); ok {
			fns = append(fns, f)
			fns = append(fns, f.AnonFuncs...)
		}
		if t, ok := m.(*ssa.Type); ok {
			for _, recv := range []types.Type{t.Type(), types.NewPointer(t.Type())} {
				ms := pkg.Prog.MethodSets.MethodSet(recv)
				for i := 0; i < ms.Len(); i++ {
					if f := pkg.Prog.MethodValue(ms.At(i)); f != nil && f.Pkg == pkg {
						fns = append(fns, f)
						fns = append(fns, f.AnonFuncs...)
					}
				}
			}
		}
	}
	for _, f := range fns {
		for _, b := range f.Blocks {
			for _, in := range b.Instrs {
				if st, ok := in.(*ssa.Store); ok && st.Addr == ssa.Value(g) {
					stores++
					mk = st.Val
				}
			}
		}
	}
	if stores != 1 {
		return nil, fmt.Errorf("map %s is assigned %d times", g.Name(), stores)
	}
	if _, ok := mk.(*ssa.MakeMap); !ok {
		return nil, fmt.Errorf("map %s is not built by a literal", g.Name())
	}
	tab := map[string]constant.Value{}
	for _, f := range fns {
		for _, b := range f.Blocks {
			for _, in := range b.Instrs {
				mu, ok := in.(*ssa.MapUpdate)
				if !ok {
					continue
				}
				isLit := mu.Map == mk
				if !isLit {
					// an update through a load of the global
					if u, ok := mu.Map.(*ssa.UnOp); ok && u.X == ssa.Value(g) {
						return nil, fmt.Errorf("map %s is updated in %s", g.Name(), f.Name())
					}
					continue
				}
				k, ok1 := mu.Key.(*ssa.Const)
				v, ok2 := mu.Value.(*ssa.Const)
				if !ok1 || !ok2 || k.Value == nil {
					return nil, fmt.Errorf("map %s has a non-constant entry", g.Name())
				}
				val := v.Value
				if val == nil {
					val = zeroConst(v.Type())
				}
				tab[k.Value.ExactString()] = val
			}
		}
	}
	ce.maps[g] = tab
	return tab, nil
}

// addrPath resolves an address below a package-level variable: constant (or, with get, propagated) indices and
// field numbers.
func (ce *ConstEvaluator) addrPath(v ssa.Value, get func(ssa.Value) (constant.Value, bool)) (*ssa.Global, string, bool) {
	if get != nil {
		if _, isG := v.(*ssa.Global); !isG {
			if c, ok := get(v); ok {
				if pv, isP := ce.asPtr(c); isP {
					return pv.g, pv.path, true
				}
			}
		}
	}
	switch x := v.(type) {
	case *ssa.Global:
		return x, "", true
	case *ssa.IndexAddr:
		if _, isArr := x.X.Type().Underlying().(*types.Pointer); !isArr {
			return nil, "", false
		}
		g, p, ok := ce.addrPath(x.X, get)
		if !ok {
			return nil, "", false
		}
		var k constant.Value
		if c, isC := x.Index.(*ssa.Const); isC && c.Value != nil {
			k = c.Value
		} else if get != nil {
			if c, ok := get(x.Index); ok {
				k = c
			}
		}
		if k == nil || k.Kind() != constant.Int {
			return nil, "", false
		}
		return g, p + "[" + k.ExactString() + "]", true
	case *ssa.FieldAddr:
		g, p, ok := ce.addrPath(x.X, get)
		if !ok {
			return nil, "", false
		}
		return g, fmt.Sprintf("%s.%d", p, x.Field), true
	}
	return nil, "", false
}

func pkgFunctions(pkg *ssa.Package) []*ssa.Function {
	var fns []*ssa.Function
	for _, m := range pkg.Members {
		if f, ok := m.(*ssa.Function); ok {
			fns = append(fns, f)
			fns = append(fns, f.AnonFuncs...)
		}
		if t, ok := m.(*ssa.Type); ok {
			for _, recv := range []types.Type{t.Type(), types.NewPointer(t.Type())} {
				ms := pkg.Prog.MethodSets.MethodSet(recv)
				for i := 0; i < ms.Len(); i++ {
					if f := pkg.Prog.MethodValue(ms.At(i)); f != nil && f.Pkg == pkg {
						fns = append(fns, f)
						fns = append(fns, f.AnonFuncs...)
					}
				}
			}
		}
	}
	return fns
}

// globalCells reads a package-level array / struct variable whose cells are only written by the package initialiser
// (its literal), with constants, and whose address is used for nothing but indexing, field selection, loads and those
// stores. A cell that is absent has the zero value; a cell written with a non-constant is recorded as nil.
func (ce *ConstEvaluator) globalCells(g *ssa.Global) (map[string]constant.Value, error) {
	if t, ok := ce.cells[g]; ok {
		if t == nil {
			return nil, fmt.Errorf("variable %s is not a constant literal", g.Name())
		}
		return t, nil
	}
	ce.cells[g] = nil
	tab := map[string]constant.Value{}
	initFn := g.Pkg.Func("init")
	seenRet := map[*ssa.Function]bool{}
	seenAddr := map[ssa.Value]bool{}
	var walk func(addr ssa.Value) error
	walk = func(addr ssa.Value) error {
		refs := addr.Referrers()
		if refs == nil {
			return nil
		}
		for _, r := range *refs {
			switch x := r.(type) {
			case *ssa.IndexAddr:
				if x.X != addr {
					return fmt.Errorf("variable %s: address used as an index", g.Name())
				}
				if err := walk(x); err != nil {
					return err
				}
			case *ssa.FieldAddr:
				if err := walk(x); err != nil {
					return err
				}
			case *ssa.UnOp:
				if x.Op != token.MUL {
					return fmt.Errorf("variable %s: address used by %s", g.Name(), x.Op)
				}
			case *ssa.Store:
				if x.Addr != addr {
					return fmt.Errorf("variable %s: its address is stored in %s", g.Name(), x.Parent().Name())
				}
				if x.Parent() != initFn {
					return fmt.Errorf("variable %s is written in %s", g.Name(), x.Parent().Name())
				}
				_, path, ok := ce.addrPath(addr, nil)
				if !ok {
					return fmt.Errorf("variable %s is written at a computed index", g.Name())
				}
				if cst, isC := x.Val.(*ssa.Const); isC {
					val := cst.Value
					if val == nil {
						val = zeroConst(cst.Type())
					}
					if _, dup := tab[path]; dup {
						return fmt.Errorf("variable %s: cell %s is written twice", g.Name(), path)
					}
					tab[path] = val
				} else {
					tab[path] = nil
				}
			case *ssa.DebugRef:
			case *ssa.Phi:
				if !seenAddr[x] {
					seenAddr[x] = true
					if err := walk(x); err != nil {
						return err
					}
				}
			case *ssa.Return:
				// the address is handed to the callers of an unexported function of the package: they must use it the
				// same way
				f := x.Parent()
				if f.Object() == nil || f.Object().Exported() || seenRet[f] {
					if seenRet[f] {
						continue
					}
					return fmt.Errorf("variable %s: its address is returned by %s", g.Name(), f.Name())
				}
				seenRet[f] = true
				sites, esc := CallSitesOf(f)
				if esc {
					return fmt.Errorf("variable %s: its address is returned by %s, which is used as a value", g.Name(), f.Name())
				}
				for _, cs := range sites {
					if cv, ok := cs.(*ssa.Call); ok {
						if err := walk(cv); err != nil {
							return err
						}
					} else {
						return fmt.Errorf("variable %s: its address is returned by %s to a go/defer statement", g.Name(), f.Name())
					}
				}
			default:
				return fmt.Errorf("variable %s: its address escapes in %s", g.Name(), r.Parent().Name())
			}
		}
		return nil
	}
	// a Global is referenced from every function of the package: collect its uses there (Referrers of a Global is nil)
	for _, f := range pkgFunctions(g.Pkg) {
		for _, b := range f.Blocks {
			for _, in := range b.Instrs {
				var buf [8]*ssa.Value
				for _, op := range in.Operands(buf[:0]) {
					if op == nil || *op != ssa.Value(g) {
						continue
					}
					switch x := in.(type) {
					case *ssa.IndexAddr, *ssa.FieldAddr:
						if err := walk(x.(ssa.Value)); err != nil {
							return nil, err
						}
					case *ssa.UnOp:
						if x.Op != token.MUL {
							return nil, fmt.Errorf("variable %s: address used by %s", g.Name(), x.Op)
						}
					case *ssa.Store:
						if x.Addr == ssa.Value(g) {
							return nil, fmt.Errorf("variable %s is assigned as a whole in %s", g.Name(), f.Name())
						}
						return nil, fmt.Errorf("variable %s: its address is stored in %s", g.Name(), f.Name())
					case *ssa.DebugRef:
					default:
						return nil, fmt.Errorf("variable %s: its address escapes in %s", g.Name(), f.Name())
					}
				}
			}
		}
	}
	ce.cells[g] = tab
	return tab, nil
}

// ConstOperandsOfType lists the distinct constants of the named type that occur as operands in the functions.
func ConstOperandsOfType(fns []*ssa.Function, t types.Type) map[string]bool {
	out := map[string]bool{}
	var buf [10]*ssa.Value
	for _, f := range fns {
		for _, b := range f.Blocks {
			for _, in := range b.Instrs {
				for _, op := range in.Operands(buf[:0]) {
					if op == nil || *op == nil {
						continue
					}
					if c, ok := (*op).(*ssa.Const); ok && c.Value != nil && types.Identical(c.Type(), t) {
						out[c.Value.ExactString()] = true
					}
				}
			}
		}
	}
	return out
}
