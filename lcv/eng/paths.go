package eng

// E4 (part): path conditions in small regions.

import (
	"go/token"

	"golang.org/x/tools/go/ssa"
)

// PathLit is one branch decision on a path.
type PathLit struct {
	Cond  ssa.Value
	Truth bool
}

// Path is the list of branch decisions taken and the blocks visited.
type Path struct {
	Lits   []PathLit
	Blocks []*ssa.BasicBlock
}

// EnumPaths enumerates the simple paths (no block repeated) from `from` to `to`. Blocks for
// which avoid returns true are not entered. The search stops after max paths (ok=false).
func EnumPaths(from, to *ssa.BasicBlock, avoid func(*ssa.BasicBlock) bool, max int) (paths []Path, ok bool) {
	ok = true
	onPath := map[*ssa.BasicBlock]bool{}
	var lits []PathLit
	var blocks []*ssa.BasicBlock
	var dfs func(b *ssa.BasicBlock)
	dfs = func(b *ssa.BasicBlock) {
		if !ok {
			return
		}
		blocks = append(blocks, b)
		defer func() { blocks = blocks[:len(blocks)-1] }()
		if b == to {
			if len(paths) >= max {
				ok = false
				return
			}
			paths = append(paths, Path{Lits: append([]PathLit(nil), lits...), Blocks: append([]*ssa.BasicBlock(nil), blocks...)})
			return
		}
		onPath[b] = true
		defer delete(onPath, b)
		last := b.Instrs[len(b.Instrs)-1]
		for k, s := range b.Succs {
			if onPath[s] || (avoid != nil && s != to && avoid(s)) {
				continue
			}
			pushed := false
			if ifi, isIf := last.(*ssa.If); isIf && b.Succs[0] != b.Succs[1] {
				cond, truth := ifi.Cond, k == 0
				for {
					if u, isU := cond.(*ssa.UnOp); isU && u.Op == token.NOT {
						cond, truth = u.X, !truth
						continue
					}
					break
				}
				lits = append(lits, PathLit{cond, truth})
				pushed = true
			}
			dfs(s)
			if pushed {
				lits = lits[:len(lits)-1]
			}
		}
	}
	dfs(from)
	return paths, ok
}

// PathsSatisfiable evaluates the disjunction of the paths' conjunctions under an assignment of
// truth values to atoms (conditions are matched by the atom function, which returns the atom
// index or -1 for conditions that are not atoms; such literals are treated as unconstrained;
// a value <= -2 names the negation of atom -(v+2)).
func PathsSatisfiable(paths []Path, atom func(ssa.Value) int, assign []bool) bool {
	for _, p := range paths {
		sat := true
		for _, l := range p.Lits {
			a := atom(l.Cond)
			if a == -1 {
				continue
			}
			truth := l.Truth
			if a <= -2 {
				a, truth = -(a + 2), !truth
			}
			if assign[a] != truth {
				sat = false
				break
			}
		}
		if sat {
			return true
		}
	}
	return false
}
