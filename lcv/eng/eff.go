// Package eng contains the analysis engines (E1..E8 of DESIGN.md).
package eng

// E1: ownership / effect explorer. A context-sensitive abstract interpretation
// over SSA rooted at an API entry point. Every pointer-like value carries a
// provenance set; writes whose target may be non-owned memory are reported.

import (
	"fmt"
	"go/constant"
	"go/token"
	"go/types"
	"sort"
	"strings"

	"golang.org/x/tools/go/ssa"

	"lcv/core"
)

type Prov uint8

const (
	Fresh   Prov = 1 << iota // allocated inside the explored call tree
	Shared                   // reachable from the receiver / designated shared operand
	Input                    // caller-supplied slice or reader
	Global                   // package-level variable
	Unknown                  // anything else (channel receive, unsummarised result, callback parameter)
)

const NonOwned = Shared | Input | Global | Unknown

func (p Prov) String() string {
	var s []string
	for i, n := range []string{"Fresh", "Shared", "Input", "Global", "Unknown"} {
		if p&(1<<uint(i)) != 0 {
			s = append(s, n)
		}
	}
	if len(s) == 0 {
		return "-"
	}
	return strings.Join(s, "|")
}

type boolc int8 // 0 unknown, 1 true, -1 false

// EffViolation is one write (or other effect) that may touch non-owned memory.
type EffViolation struct {
	Kind      string // store, mapupdate, append, copy, delete, send, go, extcall, dynamic
	Fn        *ssa.Function
	Construct string // stable key
	Pos       token.Pos
	Prov      Prov
	Detail    string
	Path      string // call path from the root
	Instr     ssa.Instruction
}

// ExtCall records a call that leaves the analysed scope.
type ExtCall struct {
	Name  string
	Count int
	How   string // which summary applied
}

type clone struct {
	e      *Explorer
	fn     *ssa.Function
	params []Prov
	bools  []boolc
	fvs    []Prov
	vals   map[ssa.Value]Prov
	ret    []Prov
	tuples map[ssa.Value][]Prov
	live   map[*ssa.BasicBlock]bool
	parent *clone
	site   token.Pos
}

// Explorer is one run of E1.
type Explorer struct {
	P          *core.Prog
	Scope      []string // package path prefixes analysed (everything else is "external")
	AllowGo    bool     // do not report goroutine spawns (used for the v1 concurrency enumeration)
	clones     map[string]*clone
	order      []*clone
	heap       map[string]Prov
	Viol       map[string]*EffViolation
	Ext        map[string]*ExtCall
	NondetSrc  map[string]token.Pos // E5: calls to wall-clock / random sources: name -> first position
	NondetFn   map[string]*ssa.Function
	heapBool   map[string]int8 // bool fields of fresh objects: 1 true, -1 false, 2 both
	dirty      bool
	Iterations int
	Undecided  map[string]*EffViolation
}

func NewExplorer(p *core.Prog, scope ...string) *Explorer {
	return &Explorer{P: p, Scope: scope, clones: map[string]*clone{}, heap: map[string]Prov{}, Viol: map[string]*EffViolation{},
		heapBool: map[string]int8{}, Ext: map[string]*ExtCall{}, NondetSrc: map[string]token.Pos{}, NondetFn: map[string]*ssa.Function{}, Undecided: map[string]*EffViolation{}}
}

func PointerLike(t types.Type) bool {
	switch u := t.Underlying().(type) {
	case *types.Pointer, *types.Slice, *types.Map, *types.Chan, *types.Signature, *types.Interface:
		return true
	case *types.Struct:
		for i := 0; i < u.NumFields(); i++ {
			if PointerLike(u.Field(i).Type()) {
				return true
			}
		}
	case *types.Tuple:
		for i := 0; i < u.Len(); i++ {
			if PointerLike(u.At(i).Type()) {
				return true
			}
		}
	case *types.Array:
		return PointerLike(u.Elem())
	}
	return false
}

func (e *Explorer) inScope(fn *ssa.Function) bool {
	pk := core.FuncPkgPath(fn)
	if pk == "" {
		return false
	}
	for _, s := range e.Scope {
		if pk == s || strings.HasPrefix(pk, s+"/") {
			return true
		}
	}
	return false
}

func (e *Explorer) get(fn *ssa.Function, params []Prov, bools []boolc, fvs []Prov, parent *clone, site token.Pos) *clone {
	k := fmt.Sprintf("%p|%v|%v|%v", fn, params, bools, fvs)
	if c, ok := e.clones[k]; ok {
		return c
	}
	c := &clone{e: e, fn: fn, params: params, bools: bools, fvs: fvs, vals: map[ssa.Value]Prov{}, tuples: map[ssa.Value][]Prov{}, parent: parent, site: site}
	e.clones[k] = c
	e.order = append(e.order, c)
	e.dirty = true
	return c
}

func typeKey(t types.Type) string { return types.TypeString(t, nil) }

// elemKey names the heap summary cell of the elements of a container. Slices, arrays and pointers to arrays with the same
// element type share one cell (the variadic argument of append is an array that is sliced; a named slice type and its
// unnamed form are the same memory), maps are keyed by their underlying type.
func elemKey(t types.Type) string {
	u := t.Underlying()
	if p, ok := u.(*types.Pointer); ok {
		u = p.Elem().Underlying()
	}
	switch x := u.(type) {
	case *types.Slice:
		return "elem:[]" + typeKey(x.Elem())
	case *types.Array:
		return "elem:[]" + typeKey(x.Elem())
	case *types.Map:
		return "elem:" + typeKey(x)
	}
	return "elem:" + typeKey(t)
}

func (e *Explorer) heapKey(addr ssa.Value) string {
	switch a := addr.(type) {
	case *ssa.FieldAddr:
		st := a.X.Type().Underlying().(*types.Pointer).Elem()
		return fmt.Sprintf("%s.#%d", typeKey(st), a.Field)
	case *ssa.IndexAddr:
		t := a.X.Type()
		if p, ok := t.Underlying().(*types.Pointer); ok { // pointer to array
			t = p.Elem()
		}
		return elemKey(t)
	}
	return "deref:" + typeKey(addr.Type())
}

func (e *Explorer) heapAdd(k string, p Prov) {
	if p == 0 {
		return
	}
	if e.heap[k]|p != e.heap[k] {
		e.heap[k] |= p
		e.dirty = true
	}
}

// HeapOf exposes the field-based heap summary (used by C20).
func (e *Explorer) HeapOf(key string) Prov { return e.heap[key] }

func (c *clone) prov(v ssa.Value) Prov {
	switch x := v.(type) {
	case *ssa.Const, *ssa.Function, *ssa.Builtin:
		return 0
	case *ssa.Global:
		return Global
	case *ssa.Parameter:
		for i, p := range c.fn.Params {
			if p == x {
				return c.params[i]
			}
		}
	case *ssa.FreeVar:
		for i, p := range c.fn.FreeVars {
			if p == x {
				if i < len(c.fvs) {
					return c.fvs[i]
				}
				return Unknown
			}
		}
	}
	return c.vals[v]
}

func (e *Explorer) set(c *clone, v ssa.Value, p Prov) {
	if !PointerLike(v.Type()) {
		return
	}
	if c.vals[v]|p != c.vals[v] {
		c.vals[v] |= p
		e.dirty = true
	}
}

func (c *clone) boolOf(v ssa.Value) boolc {
	switch x := v.(type) {
	case *ssa.Const:
		if x.Value != nil && x.Value.Kind() == constant.Bool {
			if constant.BoolVal(x.Value) {
				return 1
			}
			return -1
		}
	case *ssa.Parameter:
		for i, p := range c.fn.Params {
			if p == x && i < len(c.bools) {
				return c.bools[i]
			}
		}
	case *ssa.UnOp:
		if x.Op == token.NOT {
			return -c.boolOf(x.X)
		}
		// a bool field of an object allocated in this call tree that was only ever assigned one constant
		if x.Op == token.MUL && c.e != nil {
			if fa, ok := x.X.(*ssa.FieldAddr); ok && c.prov(fa.X) == Fresh {
				switch c.e.heapBool[c.e.heapKey(fa)] {
				case 1:
					return 1
				case -1:
					return -1
				}
			}
		}
	}
	return 0
}

func (e *Explorer) path(c *clone) string {
	var parts []string
	for x := c; x != nil; x = x.parent {
		parts = append(parts, core.ShortFn(x.fn))
		if len(parts) > 12 {
			parts = append(parts, "...")
			break
		}
	}
	for i, j := 0, len(parts)-1; i < j; i, j = i+1, j-1 {
		parts[i], parts[j] = parts[j], parts[i]
	}
	return strings.Join(parts, " -> ")
}

func (e *Explorer) report(c *clone, in ssa.Instruction, kind, target string, p Prov, detail string) {
	key := fmt.Sprintf("%s: %s %s", core.ShortFn(c.fn), kind, target)
	if _, ok := e.Viol[key]; ok {
		e.Viol[key].Prov |= p
		return
	}
	e.Viol[key] = &EffViolation{Kind: kind, Fn: c.fn, Construct: key, Pos: in.Pos(), Prov: p, Detail: detail, Path: e.path(c), Instr: in}
}

func (e *Explorer) undecided(c *clone, in ssa.Instruction, kind, target string, p Prov, detail string) {
	key := fmt.Sprintf("%s: %s %s", core.ShortFn(c.fn), kind, target)
	if _, ok := e.Undecided[key]; ok {
		return
	}
	e.Undecided[key] = &EffViolation{Kind: kind, Fn: c.fn, Construct: key, Pos: in.Pos(), Prov: p, Detail: detail, Path: e.path(c), Instr: in}
}

// describeAddr gives a position-independent description of a written location.
func describeAddr(v ssa.Value) string {
	switch a := v.(type) {
	case *ssa.FieldAddr:
		st := a.X.Type().Underlying().(*types.Pointer).Elem()
		name := core.FieldName(a)
		return "field " + shortType(st) + "." + name
	case *ssa.IndexAddr:
		return "element of " + describeBase(a.X)
	case *ssa.Global:
		return "global " + a.Name()
	case *ssa.Parameter:
		return "*param " + a.Name()
	case *ssa.FreeVar:
		return "*captured " + a.Name()
	case *ssa.UnOp:
		return "*(" + describeBase(a.X) + ")"
	case *ssa.Phi:
		return "*phi " + a.Comment
	}
	return "*" + shortType(v.Type())
}

func describeBase(v ssa.Value) string {
	switch a := v.(type) {
	case *ssa.UnOp:
		if a.Op == token.MUL {
			return describeAddr(a.X)
		}
	case *ssa.Parameter:
		return "param " + a.Name()
	case *ssa.FreeVar:
		return "captured " + a.Name()
	case *ssa.Global:
		return "global " + a.Name()
	case *ssa.Slice:
		return describeBase(a.X)
	case *ssa.Phi:
		if a.Comment != "" {
			return "var " + a.Comment
		}
	case *ssa.Field, *ssa.FieldAddr:
		return "field " + core.FieldName(v)
	case *ssa.Call:
		if f := a.Call.StaticCallee(); f != nil {
			return "result of " + f.Name()
		}
	case *ssa.Alloc:
		return "local " + a.Comment
	case *ssa.Extract:
		return fmt.Sprintf("%s#%d", describeBase(a.Tuple), a.Index)
	case *ssa.Lookup:
		return describeBase(a.X) + "[..]"
	case *ssa.Index:
		return describeBase(a.X) + "[..]"
	case *ssa.IndexAddr:
		return describeBase(a.X) + "[..]"
	case *ssa.MakeMap:
		return "local map"
	case *ssa.Convert:
		return describeBase(a.X)
	case *ssa.ChangeType:
		return describeBase(a.X)
	}
	return shortType(v.Type())
}

// Describe gives a position- and register-independent description of a value (for construct keys).
func Describe(v ssa.Value) string { return describeBase(v) }

func shortType(t types.Type) string {
	return types.TypeString(t, func(p *types.Package) string { return p.Name() })
}

// Run explores from root with the given parameter provenances.
func (e *Explorer) Run(root *ssa.Function, params []Prov) []Prov {
	bools := make([]boolc, len(root.Params))
	rc := e.get(root, params, bools, nil, nil, token.NoPos)
	e.fix()
	return rc.ret
}

// RunMore adds another root to the same exploration (shared heap summary).
func (e *Explorer) RunMore(root *ssa.Function, params []Prov) []Prov { return e.Run(root, params) }

func (e *Explorer) fix() {
	for e.dirty {
		e.dirty = false
		e.Iterations++
		for i := 0; i < len(e.order); i++ {
			e.analyze(e.order[i])
		}
		if e.Iterations > 200 {
			panic("E1: no fixed point after 200 iterations")
		}
	}
}

// Explored lists the distinct functions that were analysed.
func (e *Explorer) Explored() []*ssa.Function {
	seen := map[*ssa.Function]bool{}
	var out []*ssa.Function
	for _, c := range e.order {
		if !seen[c.fn] {
			seen[c.fn] = true
			out = append(out, c.fn)
		}
	}
	sort.Slice(out, func(i, j int) bool { return out[i].String() < out[j].String() })
	return out
}

func (e *Explorer) NumClones() int { return len(e.order) }

// LiveIn reports whether instruction in is live in at least one analysed clone of its function.
func (e *Explorer) LiveIn(in ssa.Instruction) bool {
	for _, c := range e.order {
		if c.fn == in.Parent() && c.live[in.Block()] {
			return true
		}
	}
	return false
}

func (e *Explorer) analyze(c *clone) {
	fn := c.fn
	if len(fn.Blocks) == 0 {
		return
	}
	live := map[*ssa.BasicBlock]bool{}
	work := []*ssa.BasicBlock{fn.Blocks[0]}
	if fn.Recover != nil {
		work = append(work, fn.Recover)
	}
	for len(work) > 0 {
		b := work[len(work)-1]
		work = work[:len(work)-1]
		if live[b] {
			continue
		}
		live[b] = true
		if len(b.Instrs) > 0 {
			if ifi, ok := b.Instrs[len(b.Instrs)-1].(*ssa.If); ok {
				switch c.boolOf(ifi.Cond) {
				case 1:
					work = append(work, b.Succs[0])
					continue
				case -1:
					work = append(work, b.Succs[1])
					continue
				}
			}
		}
		work = append(work, b.Succs...)
	}
	c.live = live
	for _, b := range fn.Blocks {
		if !live[b] {
			continue
		}
		for _, in := range b.Instrs {
			e.instr(c, in)
		}
	}
}

func (e *Explorer) loadFrom(c *clone, base ssa.Value, key string) Prov {
	p := c.prov(base)
	var r Prov
	if p&Fresh != 0 {
		r |= e.heap[key]
	}
	r |= p &^ Fresh
	return r
}

func (e *Explorer) instr(c *clone, in ssa.Instruction) {
	switch x := in.(type) {
	case *ssa.Alloc:
		e.set(c, x, Fresh)
	case *ssa.MakeMap:
		e.set(c, x, Fresh)
	case *ssa.MakeSlice:
		e.set(c, x, Fresh)
	case *ssa.MakeChan:
		e.set(c, x, Fresh)
	case *ssa.MakeClosure:
		e.set(c, x, Fresh)
	case *ssa.FieldAddr:
		e.set(c, x, c.prov(x.X))
	case *ssa.Field:
		e.set(c, x, c.prov(x.X))
	case *ssa.IndexAddr:
		e.set(c, x, c.prov(x.X))
	case *ssa.Index:
		e.set(c, x, c.prov(x.X))
	case *ssa.Slice:
		e.set(c, x, c.prov(x.X))
	case *ssa.Phi:
		var p Prov
		for i, ed := range x.Edges {
			if c.live[x.Block().Preds[i]] {
				p |= c.prov(ed)
			}
		}
		e.set(c, x, p)
	case *ssa.Extract:
		if t, ok := c.tuples[x.Tuple]; ok && x.Index < len(t) {
			e.set(c, x, t[x.Index])
		} else {
			e.set(c, x, c.prov(x.Tuple))
		}
	case *ssa.TypeAssert:
		e.set(c, x, c.prov(x.X))
	case *ssa.ChangeInterface:
		e.set(c, x, c.prov(x.X))
	case *ssa.ChangeType:
		e.set(c, x, c.prov(x.X))
	case *ssa.MakeInterface:
		e.set(c, x, c.prov(x.X))
	case *ssa.SliceToArrayPointer:
		e.set(c, x, c.prov(x.X))
	case *ssa.Convert:
		// string <-> []byte / []rune conversions copy
		if _, ok := x.Type().Underlying().(*types.Slice); ok {
			e.set(c, x, Fresh)
		} else {
			e.set(c, x, c.prov(x.X))
		}
	case *ssa.UnOp:
		if x.Op == token.MUL {
			e.set(c, x, e.loadFrom(c, x.X, e.heapKey(x.X)))
		} else if x.Op == token.ARROW {
			// what comes out of a channel is what was sent on a channel of that type (one summary cell per channel type,
			// like the elements of a slice); a channel that is not this call's own yields its own provenance
			e.set(c, x, e.loadFrom(c, x.X, elemKey(x.X.Type())))
		}
	case *ssa.Lookup:
		e.set(c, x, e.loadFrom(c, x.X, elemKey(x.X.Type())))
	case *ssa.Range:
		e.set(c, x, c.prov(x.X))
	case *ssa.Next:
		if x.IsString {
			return
		}
		if it, ok := x.Iter.(*ssa.Range); ok {
			e.set(c, x, e.loadFrom(c, it.X, elemKey(it.X.Type())))
		} else {
			e.set(c, x, Unknown)
		}
	case *ssa.Select:
		e.set(c, x, Unknown)
	case *ssa.Store:
		if fa, ok := x.Addr.(*ssa.FieldAddr); ok {
			if bt, isB := x.Val.Type().Underlying().(*types.Basic); isB && bt.Kind() == types.Bool {
				k := e.heapKey(fa)
				nv := int8(2)
				switch c.boolOf(x.Val) {
				case 1:
					nv = 1
				case -1:
					nv = -1
				}
				old := e.heapBool[k]
				if old == 0 {
					e.heapBool[k] = nv
					e.dirty = true
				} else if old != nv && old != 2 {
					e.heapBool[k] = 2
					e.dirty = true
				}
			}
		}
		p := c.prov(x.Addr)
		// a struct stored as a whole carries its provenance into every reference field: the fields are loaded through
		// FieldAddr under per-field keys (a value receiver spilled to a local - `func (m memo) lookup()` - still holds the
		// caller's map)
		if st, isSt := x.Val.Type().Underlying().(*types.Struct); isSt && (p&Fresh != 0) {
			if vp := c.prov(x.Val); vp != 0 {
				for i := 0; i < st.NumFields(); i++ {
					if PointerLike(st.Field(i).Type()) {
						e.heapAdd(fmt.Sprintf("%s.#%d", typeKey(x.Val.Type()), i), vp)
					}
				}
			}
		}
		if _, isAlloc := x.Addr.(*ssa.Alloc); isAlloc {
			e.heapAdd(e.heapKey(x.Addr), c.prov(x.Val))
			return
		}
		if p&NonOwned != 0 {
			e.report(c, x, "store", describeAddr(x.Addr), p, "store to memory that is not owned by this call")
		}
		if p&Fresh != 0 && PointerLike(x.Val.Type()) {
			e.heapAdd(e.heapKey(x.Addr), c.prov(x.Val))
		}
	case *ssa.MapUpdate:
		p := c.prov(x.Map)
		if p&NonOwned != 0 {
			e.report(c, x, "mapupdate", describeBase(x.Map), p, "update of a map that is not owned by this call")
		}
		if p&Fresh != 0 {
			k := elemKey(x.Map.Type())
			if PointerLike(x.Value.Type()) {
				e.heapAdd(k, c.prov(x.Value))
			}
			if PointerLike(x.Key.Type()) {
				e.heapAdd(k, c.prov(x.Key))
			}
		}
	case *ssa.Send:
		if PointerLike(x.X.Type()) {
			e.heapAdd(elemKey(x.Chan.Type()), c.prov(x.X))
		}
		if !e.AllowGo {
			e.report(c, x, "send", describeBase(x.Chan), c.prov(x.Chan), "channel send")
		}
	case *ssa.Go:
		if !e.AllowGo {
			e.report(c, x, "go", calleeName(&x.Call), 0, "goroutine spawned")
		}
		e.call(c, x, &x.Call, nil)
	case *ssa.Defer:
		e.call(c, x, &x.Call, nil)
	case *ssa.Call:
		e.call(c, x, &x.Call, x)
	case *ssa.Return:
		for len(c.ret) < len(x.Results) {
			c.ret = append(c.ret, 0)
		}
		for i, r := range x.Results {
			p := c.prov(r)
			if c.ret[i]|p != c.ret[i] {
				c.ret[i] |= p
				e.dirty = true
			}
		}
	}
}

func calleeName(cc *ssa.CallCommon) string {
	if cc.IsInvoke() {
		return "invoke " + cc.Method.FullName()
	}
	if f := cc.StaticCallee(); f != nil {
		return core.ShortFn(f)
	}
	return "dynamic " + shortType(cc.Value.Type())
}

func resolveClosure(v ssa.Value) (*ssa.Function, []ssa.Value) {
	switch x := v.(type) {
	case *ssa.Function:
		return x, nil
	case *ssa.MakeClosure:
		return x.Fn.(*ssa.Function), x.Bindings
	case *ssa.ChangeType:
		return resolveClosure(x.X)
	case *ssa.UnOp:
		if al, ok := x.X.(*ssa.Alloc); ok && x.Op == token.MUL {
			var fn *ssa.Function
			var b []ssa.Value
			n := 0
			for _, r := range *al.Referrers() {
				if st, ok := r.(*ssa.Store); ok && st.Addr == al {
					n++
					fn, b = resolveClosure(st.Val)
				}
			}
			if n == 1 {
				return fn, b
			}
		}
	}
	return nil, nil
}

// resolveCaptured resolves a call through a free variable that holds a closure created by
// the enclosing function. The target's bindings live in the enclosing function's frame:
// their provenance is taken from the calling clone's parent when that is the enclosing
// function, and is Unknown otherwise.
func (e *Explorer) resolveCaptured(c *clone, v ssa.Value) (*ssa.Function, []Prov, bool) {
	var fv *ssa.FreeVar
	byRef := false
	switch x := v.(type) {
	case *ssa.FreeVar:
		fv = x
	case *ssa.UnOp:
		if f, ok := x.X.(*ssa.FreeVar); ok && x.Op == token.MUL {
			fv, byRef = f, true
		}
	}
	if fv == nil || c.fn.Parent() == nil {
		return nil, nil, false
	}
	idx := -1
	for i, f := range c.fn.FreeVars {
		if f == fv {
			idx = i
		}
	}
	if idx < 0 {
		return nil, nil, false
	}
	// find the MakeClosure of c.fn in its parent and the binding for fv
	var target *ssa.MakeClosure
	n := 0
	for _, b := range c.fn.Parent().Blocks {
		for _, in := range b.Instrs {
			mc, ok := in.(*ssa.MakeClosure)
			if !ok || mc.Fn != c.fn || idx >= len(mc.Bindings) {
				continue
			}
			n++
			bind := mc.Bindings[idx]
			if byRef {
				if al, ok := bind.(*ssa.Alloc); ok {
					cnt := 0
					for _, r := range *al.Referrers() {
						if st, ok := r.(*ssa.Store); ok && st.Addr == al {
							cnt++
							if t, ok := st.Val.(*ssa.MakeClosure); ok {
								target = t
							}
						}
					}
					if cnt != 1 {
						target = nil
					}
				}
			} else if t, ok := bind.(*ssa.MakeClosure); ok {
				target = t
			}
		}
	}
	if n != 1 || target == nil {
		return nil, nil, false
	}
	var fvs []Prov
	for _, b := range target.Bindings {
		if c.parent != nil && c.parent.fn == c.fn.Parent() {
			fvs = append(fvs, c.parent.prov(b))
		} else if PointerLike(b.Type()) {
			fvs = append(fvs, Unknown)
		} else {
			fvs = append(fvs, 0)
		}
	}
	return target.Fn.(*ssa.Function), fvs, true
}

func (e *Explorer) elemProv(c *clone, v ssa.Value) Prov {
	return e.loadFrom(c, v, elemKey(v.Type()))
}

func (e *Explorer) call(c *clone, site ssa.Instruction, cc *ssa.CallCommon, res ssa.Value) {
	setRes := func(p Prov) {
		if res != nil {
			e.set(c, res, p)
		}
	}
	if b, ok := cc.Value.(*ssa.Builtin); ok {
		switch b.Name() {
		case "append":
			base := c.prov(cc.Args[0])
			if base&NonOwned != 0 {
				e.report(c, site, "append", describeBase(cc.Args[0]), base, "append may write in place into a backing array that is not owned by this call")
			}
			setRes(base | Fresh)
			if len(cc.Args) > 1 {
				if et, ok := cc.Args[0].Type().Underlying().(*types.Slice); ok && PointerLike(et.Elem()) {
					ep := e.elemProv(c, cc.Args[1])
					e.heapAdd(elemKey(cc.Args[0].Type()), ep)
					if res != nil {
						e.heapAdd(elemKey(res.Type()), ep)
					}
				}
			}
		case "copy":
			if p := c.prov(cc.Args[0]); p&NonOwned != 0 {
				e.report(c, site, "copy", describeBase(cc.Args[0]), p, "copy into a slice that is not owned by this call")
			}
			if et, ok := cc.Args[0].Type().Underlying().(*types.Slice); ok && PointerLike(et.Elem()) {
				e.heapAdd(elemKey(cc.Args[0].Type()), e.elemProv(c, cc.Args[1]))
			}
		case "delete":
			if p := c.prov(cc.Args[0]); p&NonOwned != 0 {
				e.report(c, site, "delete", describeBase(cc.Args[0]), p, "delete from a map that is not owned by this call")
			}
		case "clear":
			if p := c.prov(cc.Args[0]); p&NonOwned != 0 {
				e.report(c, site, "clear", describeBase(cc.Args[0]), p, "clear of a container that is not owned by this call")
			}
		case "close":
			if !e.AllowGo {
				e.report(c, site, "close", describeBase(cc.Args[0]), c.prov(cc.Args[0]), "channel close")
			}
		}
		return
	}
	var args []ssa.Value
	if cc.IsInvoke() {
		args = append(args, cc.Value)
	}
	args = append(args, cc.Args...)
	provs := make([]Prov, len(args))
	for i, a := range args {
		provs[i] = c.prov(a)
	}

	if cc.IsInvoke() {
		// try to resolve the dynamic type through MakeInterface
		if mi, ok := cc.Value.(*ssa.MakeInterface); ok {
			if fn := e.P.SSA.LookupMethod(mi.X.Type(), cc.Method.Pkg(), cc.Method.Name()); fn != nil && e.inScope(fn) && len(fn.Blocks) > 0 {
				e.callIn(c, site, fn, provs, args, nil, res)
				return
			}
		}
		e.extCall(c, site, "("+shortIface(cc.Value.Type())+")."+cc.Method.Name(), args, provs, res)
		return
	}
	callee, bindings := resolveClosure(cc.Value)
	var fvs []Prov
	if callee == nil {
		// a function value captured from the enclosing function
		if fn2, fv2, ok := e.resolveCaptured(c, cc.Value); ok {
			callee, fvs = fn2, fv2
		}
	} else {
		for _, b := range bindings {
			fvs = append(fvs, c.prov(b))
		}
	}
	if callee == nil {
		e.dynCall(c, site, cc, args, provs, res)
		return
	}
	if len(callee.Blocks) == 0 || !e.inScope(callee) {
		e.extCall(c, site, extName(callee), args, provs, res)
		return
	}
	e.callIn(c, site, callee, provs, args, fvs, res)
}

func shortIface(t types.Type) string { return types.TypeString(t, nil) }

func extName(fn *ssa.Function) string {
	if o := fn.Origin(); o != nil {
		fn = o
	}
	if fn.Object() != nil {
		if f, ok := fn.Object().(*types.Func); ok {
			return f.FullName()
		}
	}
	return fn.String()
}

func (e *Explorer) callIn(c *clone, site ssa.Instruction, callee *ssa.Function, provs []Prov, args []ssa.Value, fvs []Prov, res ssa.Value) {
	bools := make([]boolc, len(args))
	for i, a := range args {
		bools[i] = c.boolOf(a)
	}
	// bound-method closures and wrappers may have fewer params than args; be defensive
	if len(provs) != len(callee.Params) {
		np := make([]Prov, len(callee.Params))
		nb := make([]boolc, len(callee.Params))
		for i := range np {
			if i < len(provs) {
				np[i] = provs[i]
				nb[i] = bools[i]
			} else {
				np[i] = Unknown
			}
		}
		provs, bools = np, nb
	}
	cl := e.get(callee, provs, bools, fvs, c, site.Pos())
	if res != nil {
		if len(cl.ret) == 1 {
			e.set(c, res, cl.ret[0])
		} else if len(cl.ret) > 1 {
			old := c.tuples[res]
			if fmt.Sprint(old) != fmt.Sprint(cl.ret) {
				c.tuples[res] = append([]Prov(nil), cl.ret...)
				e.dirty = true
			}
		}
	}
}

// analyseCallback explores an in-scope function value handed to code outside
// the scope: free variables keep their provenance, parameters are Unknown.
func (e *Explorer) analyseCallback(c *clone, site ssa.Instruction, v ssa.Value) bool {
	fn, bindings := resolveClosure(v)
	if fn == nil || !e.inScope(fn) || len(fn.Blocks) == 0 {
		return false
	}
	var fvs []Prov
	for _, b := range bindings {
		fvs = append(fvs, c.prov(b))
	}
	ps := make([]Prov, len(fn.Params))
	for i, p := range fn.Params {
		if PointerLike(p.Type()) {
			ps[i] = Unknown
		}
	}
	e.get(fn, ps, make([]boolc, len(fn.Params)), fvs, c, site.Pos())
	return true
}

// analyseMethods explores the named methods of the dynamic type behind an
// interface argument (sort.Interface etc.) with the argument's provenance as receiver.
func (e *Explorer) analyseMethods(c *clone, site ssa.Instruction, v ssa.Value, methods []string, extName string, rest []Prov) bool {
	mi, ok := v.(*ssa.MakeInterface)
	if !ok {
		return false
	}
	t := mi.X.Type()
	rp := c.prov(mi.X)
	okAll := true
	for _, m := range methods {
		var pkg *types.Package
		if n, ok := deref(t).(*types.Named); ok {
			pkg = n.Obj().Pkg()
		}
		fn := e.P.SSA.LookupMethod(t, pkg, m)
		if fn == nil {
			okAll = false
			continue
		}
		if !e.inScope(fn) || len(fn.Blocks) == 0 {
			continue
		}
		ps := make([]Prov, len(fn.Params))
		if len(ps) > 0 {
			ps[0] = rp
		}
		if strings.HasSuffix(extName, "."+m) {
			for i := 1; i < len(ps) && i-1 < len(rest); i++ {
				ps[i] = rest[i-1]
			}
		}
		cl := e.get(fn, ps, make([]boolc, len(fn.Params)), nil, c, site.Pos())
		_ = cl
	}
	return okAll
}

func deref(t types.Type) types.Type {
	if p, ok := t.(*types.Pointer); ok {
		return p.Elem()
	}
	return t
}

func (e *Explorer) noteExt(name, how string) {
	x := e.Ext[name]
	if x == nil {
		x = &ExtCall{Name: name, How: how}
		e.Ext[name] = x
	}
	x.Count++
}

func (e *Explorer) dynCall(c *clone, site ssa.Instruction, cc *ssa.CallCommon, args []ssa.Value, provs []Prov, res ssa.Value) {
	// The user-supplied tracer is an observer: it receives a format string and a
	// fresh []interface{}; everything reachable from it must be owned or immutable.
	desc := "dynamic call of " + describeBase(cc.Value)
	isTracer := false
	if u, ok := cc.Value.(*ssa.UnOp); ok && u.Op == token.MUL {
		if fa, ok := u.X.(*ssa.FieldAddr); ok && core.FieldName(fa) == "Tracer" {
			isTracer = true
		}
	}
	var worst Prov
	for i, a := range args {
		if !PointerLike(a.Type()) {
			continue
		}
		worst |= provs[i]
		if _, ok := a.Type().Underlying().(*types.Slice); ok {
			worst |= e.elemProv(c, a)
		}
	}
	if isTracer {
		e.noteExt("TraceFunc (user-supplied observer)", "observer")
		if worst&NonOwned != 0 {
			e.report(c, site, "extcall", "TraceFunc receives non-owned mutable memory", worst, "the user-supplied tracer is handed memory shared with other calls")
		}
		return
	}
	e.noteExt(desc, "dynamic")
	if worst&NonOwned != 0 {
		e.undecided(c, site, "dynamic", desc, worst, "call through a function value that cannot be resolved receives non-owned mutable memory")
	}
	if res != nil {
		e.set(c, res, Unknown|Fresh)
	}
}

// ---------------------------------------------------------------------------
// External call summaries (the trusted base of E1).

type extSummary struct {
	how       string
	writes    []int    // argument indexes (receiver = 0 for methods) written: must be owned
	anyRecv   bool     // receiver may be non-owned (documented safe / read-only)
	readsOnly bool     // no argument is written
	result    string   // "fresh" (default), "alias" (may alias any pointer-like arg)
	methods   []string // interface methods of argument 0 analysed as callbacks
	callbacks bool     // function-valued arguments are analysed as callbacks
	nondet    bool     // E5: wall clock / randomness / environment
	io        bool     // performs I/O on process-level state (stdout, log): observer output
}

var pureDefaultPkgs = map[string]bool{
	"strings": true, "strconv": true, "unicode": true, "unicode/utf8": true, "unicode/utf16": true, "math": true, "math/bits": true,
	"path": true, "errors": true, "html": true, "hash/crc32": true, "cmp": true, "slices": false,
}

var nondetFuncs = map[string]bool{
	"time.Now": true, "time.Since": true, "time.Until": true, "time.After": true, "time.Tick": true, "time.NewTimer": true, "time.Sleep": true, "time.NewTicker": true, "time.AfterFunc": true,
	"os.Getenv": true, "os.Getpid": true, "os.LookupEnv": true, "os.Environ": true, "os.Hostname": true, "os.Getwd": true,
	"runtime.NumCPU": true, "runtime.NumGoroutine": true, "runtime.GOMAXPROCS": true,
}

func summarize(name string) (extSummary, bool) {
	pkg := name
	isMethod := strings.HasPrefix(name, "(")
	if isMethod {
		// (*pkg.T).M or (pkg.T).M
		s := strings.TrimLeft(name, "(*")
		if i := strings.LastIndex(s, ")"); i >= 0 {
			s = s[:i]
		}
		if i := strings.LastIndex(s, "."); i >= 0 {
			pkg = s[:i]
		}
	} else if i := strings.LastIndex(name, "."); i >= 0 {
		pkg = name[:i]
	}
	if nondetFuncs[name] || pkg == "math/rand" || pkg == "crypto/rand" || pkg == "math/rand/v2" {
		return extSummary{how: "nondeterminism source", nondet: true, readsOnly: true}, true
	}
	switch name {
	case "sort.Sort", "sort.Stable":
		return extSummary{how: "sorts argument 0 through its Len/Less/Swap methods", methods: []string{"Len", "Less", "Swap"}, readsOnly: true}, true
	case "container/heap.Push", "container/heap.Init", "container/heap.Fix":
		return extSummary{how: "container/heap: operates on argument 0 through its Len/Less/Swap/Push/Pop methods (analysed as callbacks)", methods: []string{"Len", "Less", "Swap", "Push", "Pop"}, readsOnly: true}, true
	case "container/heap.Pop", "container/heap.Remove":
		return extSummary{how: "container/heap: removes and returns an element of argument 0 (callbacks analysed); result is whatever was stored in the heap", methods: []string{"Len", "Less", "Swap", "Push", "Pop"}, readsOnly: true, result: "heap-elem"}, true
	case "sort.Slice", "sort.SliceStable":
		return extSummary{how: "sorts argument 0 in place", writes: []int{0}, callbacks: true}, true
	case "sort.Strings", "sort.Ints", "sort.Float64s":
		return extSummary{how: "sorts argument 0 in place", writes: []int{0}}, true
	case "sort.Search", "sort.SearchInts", "sort.SearchStrings", "sort.IsSorted", "sort.SliceIsSorted":
		return extSummary{how: "reads", readsOnly: true, callbacks: true}, true
	case "io.ReadFull", "io.ReadAtLeast":
		return extSummary{how: "reads from argument 0 (a reader: consuming it is its purpose) into argument 1", writes: []int{1}}, true
	case "io.Copy", "io.CopyN":
		return extSummary{how: "writes to argument 0, reads argument 1", writes: []int{0}}, true
	case "io.ReadAll", "io/ioutil.ReadAll":
		return extSummary{how: "reads from a reader into a fresh slice", readsOnly: true}, true
	case "bytes.NewReader", "bytes.NewBuffer", "bytes.NewBufferString", "strings.NewReader", "bufio.NewReader", "bufio.NewScanner":
		return extSummary{how: "wraps its argument; the result aliases it (read side)", readsOnly: true, result: "alias"}, true
	case "unicode/utf8.AppendRune", "strconv.AppendInt", "strconv.AppendQuote", "fmt.Appendf", "fmt.Append":
		return extSummary{how: "appends in place to argument 0", writes: []int{0}, result: "alias"}, true
	case "unicode/utf8.EncodeRune":
		return extSummary{how: "writes argument 0", writes: []int{0}}, true
	case "fmt.Sprintf", "fmt.Sprint", "fmt.Sprintln", "fmt.Errorf", "fmt.Sscanf",
		"github.com/davecgh/go-spew/spew.Sdump", "github.com/davecgh/go-spew/spew.Sprintf":
		return extSummary{how: "formats its arguments read-only (in-scope String/Error methods are analysed as extra roots)", readsOnly: true}, true
	case "fmt.Printf", "fmt.Println", "fmt.Print", "log.Printf", "log.Println", "log.Print", "fmt.Fprintf", "fmt.Fprintln",
		"github.com/davecgh/go-spew/spew.Dump":
		return extSummary{how: "formats its arguments read-only and writes to process output (observer)", readsOnly: true, io: true}, true
	case "github.com/sergi/go-diff/diffmatchpatch.New", "hash/crc32.NewIEEE", "errors.New":
		return extSummary{how: "constructor: fresh result", readsOnly: true}, true
	case "html.UnescapeString":
		return extSummary{how: "pure string function", readsOnly: true}, true
	case "regexp.MustCompile", "regexp.Compile", "regexp.QuoteMeta":
		return extSummary{how: "pure", readsOnly: true}, true
	case "path/filepath.Walk", "path/filepath.WalkDir", "io/fs.WalkDir":
		return extSummary{how: "walks a file tree and calls the callback", readsOnly: true, callbacks: true}, true
	case "os.ReadFile", "io/ioutil.ReadFile", "os.Open", "os.Stat", "os.ReadDir", "io/ioutil.ReadDir",
		"path/filepath.Rel", "path/filepath.Join", "path/filepath.Clean", "path/filepath.Abs", "path/filepath.Base", "path/filepath.Ext", "path/filepath.Dir",
		"(embed.FS).ReadFile", "(embed.FS).ReadDir", "(embed.FS).Open":
		return extSummary{how: "file-system read / path arithmetic: fresh result", readsOnly: true, anyRecv: true}, true
	case "(hash.Hash32).Write", "(hash.Hash32).Reset", "(hash.Hash32).Sum32", "(hash.Hash).Write":
		return extSummary{how: "hash state update: receiver must be owned", writes: []int{0}}, true
	case "(io.Reader).Read":
		return extSummary{how: "reads from the receiver (a reader) into argument 1", writes: []int{1}}, true
	case "(error).Error", "(fmt.Stringer).String":
		return extSummary{how: "trusted read-only", readsOnly: true, anyRecv: true}, true
	case "(io/fs.DirEntry).IsDir", "(io/fs.DirEntry).Name", "(io/fs.FileInfo).IsDir", "(io/fs.FileInfo).Name":
		return extSummary{how: "trusted read-only", readsOnly: true, anyRecv: true}, true
	case "(*sync.Mutex).Lock", "(*sync.Mutex).Unlock", "(*sync.RWMutex).Lock", "(*sync.RWMutex).Unlock", "(*sync.RWMutex).RLock", "(*sync.RWMutex).RUnlock",
		"(*sync.WaitGroup).Add", "(*sync.WaitGroup).Done", "(*sync.WaitGroup).Wait":
		return extSummary{how: "synchronisation primitive (handled by the lock-set engine)", readsOnly: true, anyRecv: true}, true
	}
	if isMethod {
		switch {
		case strings.HasPrefix(name, "(*regexp.Regexp)."):
			if strings.HasSuffix(name, ".Longest") {
				return extSummary{how: "mutates the regexp", writes: []int{0}}, true
			}
			return extSummary{how: "regexp.Regexp methods are documented safe for concurrent use; read-only on their arguments", readsOnly: true, anyRecv: true}, true
		case strings.HasPrefix(name, "(*strings.Builder)."), strings.HasPrefix(name, "(*bytes.Buffer)."):
			m := name[strings.LastIndex(name, ".")+1:]
			switch m {
			case "String", "Len", "Cap", "Bytes":
				return extSummary{how: "reads the receiver", readsOnly: true, anyRecv: true, result: "alias"}, true
			}
			return extSummary{how: "writes the receiver (must be owned)", writes: []int{0}}, true
		case strings.HasPrefix(name, "(*bytes.Reader)."), strings.HasPrefix(name, "(*strings.Reader)."), strings.HasPrefix(name, "(*bufio.Scanner)."), strings.HasPrefix(name, "(*bufio.Reader)."):
			return extSummary{how: "advances the reader (receiver must be owned); never writes the underlying data", writes: []int{0}}, true
		case strings.HasPrefix(name, "(time.Time)."), strings.HasPrefix(name, "(time.Duration)."):
			return extSummary{how: "pure on a value", readsOnly: true, anyRecv: true}, true
		}
	}
	if pureDefaultPkgs[pkg] && !isMethod {
		return extSummary{how: "package default: functions of " + pkg + " do not write through their arguments", readsOnly: true}, true
	}
	if pkg == "bytes" && !isMethod {
		return extSummary{how: "package default: non-method functions of bytes do not write through their arguments", readsOnly: true, result: "alias"}, true
	}
	return extSummary{}, false
}

func (e *Explorer) extCall(c *clone, site ssa.Instruction, name string, args []ssa.Value, provs []Prov, res ssa.Value) {
	sum, ok := summarize(name)
	var union Prov
	for i, a := range args {
		if PointerLike(a.Type()) {
			union |= provs[i]
		}
	}
	setRes := func(p Prov) {
		if res != nil {
			e.set(c, res, p)
		}
	}
	if !ok {
		e.noteExt(name, "UNSUMMARISED")
		if union&NonOwned != 0 {
			e.undecided(c, site, "extcall", name, union, "call to a function outside the analysed scope that is not in the summary table receives non-owned mutable memory")
		}
		for _, a := range args {
			e.analyseCallback(c, site, a)
		}
		setRes(Fresh | union | Unknown)
		return
	}
	e.noteExt(name, sum.how)
	if sum.nondet {
		if _, seen := e.NondetSrc[name+" in "+core.ShortFn(c.fn)]; !seen {
			e.NondetSrc[name+" in "+core.ShortFn(c.fn)] = site.Pos()
			e.NondetFn[name+" in "+core.ShortFn(c.fn)] = c.fn
		}
	}
	for _, w := range sum.writes {
		if w < len(provs) && provs[w]&NonOwned != 0 {
			e.report(c, site, "extcall", name+" writes "+describeBase(args[w]), provs[w], sum.how)
		}
	}
	if !sum.anyRecv && !sum.readsOnly && len(sum.writes) == 0 && union&NonOwned != 0 {
		e.undecided(c, site, "extcall", name, union, "summary does not say what is written")
	}
	if len(sum.methods) > 0 && len(args) > 0 {
		if !e.analyseMethods(c, site, args[0], sum.methods, name, provs[1:]) {
			if provs[0]&NonOwned != 0 {
				e.undecided(c, site, "extcall", name+" on unresolved dynamic type", provs[0], "cannot resolve the dynamic type whose methods are called back")
			}
		}
	}
	if sum.callbacks {
		for _, a := range args {
			if _, ok := a.Type().Underlying().(*types.Signature); ok {
				if !e.analyseCallback(c, site, a) {
					e.undecided(c, site, "extcall", name+" with unresolved callback", 0, "cannot resolve the function value handed to "+name)
				}
			}
		}
	}
	switch sum.result {
	case "heap-elem":
		setRes(e.heap["elem:[]interface{}"] | e.heap["elem:[]any"] | (union &^ Fresh))
	case "alias":
		setRes(Fresh | union)
	default:
		setRes(Fresh)
	}
}

// IdentityAppend recognises append(a, b...) where, on every incoming edge, a and b are
// adjacent sub-slices s[x:j] and s[j:y] of the same slice s (or both nil): the append
// then rewrites the elements of s[j:y] with the values they already hold, so it cannot
// change any value (it is still a write as far as data races are concerned).
func IdentityAppend(in ssa.Instruction) bool {
	call, ok := in.(*ssa.Call)
	if !ok {
		return false
	}
	b, ok := call.Call.Value.(*ssa.Builtin)
	if !ok || b.Name() != "append" || len(call.Call.Args) != 2 {
		return false
	}
	seen := map[[2]ssa.Value]bool{}
	var pairOK func(a, b ssa.Value) bool
	pairOK = func(a, b ssa.Value) bool {
		k := [2]ssa.Value{a, b}
		if seen[k] {
			return true
		}
		seen[k] = true
		if isNilConst(a) && isNilConst(b) {
			return true
		}
		pa, ok1 := a.(*ssa.Phi)
		pb, ok2 := b.(*ssa.Phi)
		if ok1 && ok2 {
			if pa.Block() != pb.Block() || len(pa.Edges) != len(pb.Edges) {
				return false
			}
			for i := range pa.Edges {
				if !pairOK(pa.Edges[i], pb.Edges[i]) {
					return false
				}
			}
			return true
		}
		sa, ok1 := a.(*ssa.Slice)
		sb, ok2 := b.(*ssa.Slice)
		if !ok1 || !ok2 {
			return false
		}
		return sa.X == sb.X && sa.High != nil && sb.Low != nil && sa.High == sb.Low && sa.Max == nil
	}
	return pairOK(call.Call.Args[0], call.Call.Args[1])
}

func isNilConst(v ssa.Value) bool {
	c, ok := v.(*ssa.Const)
	return ok && c.Value == nil
}

// DebugClones lists the analysed clones (function, parameter provenances) whose function name contains substr.
func (e *Explorer) DebugClones(substr string) []string {
	var out []string
	for _, c := range e.order {
		if substr != "" && !strings.Contains(c.fn.String(), substr) {
			continue
		}
		var ps []string
		for _, p := range c.params {
			ps = append(ps, p.String())
		}
		out = append(out, fmt.Sprintf("clone %s (%s) from %s", c.fn.String(), strings.Join(ps, ", "), e.path(c)))
	}
	return out
}
